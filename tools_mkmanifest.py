import json, sys
NA = {
"C01":"pure function of (configuration, input): derivative-vs-truth needs generated inputs against complex-step/FD/symbolic oracles; no schedule, clock, fault or interleaving to simulate. Only its 'stale non-zeros' clause is history-dependent, and that clause is decided under C03.",
"C02":"totals, fwd=rev and linear-solver independence are functions of (model, point, mode, solver); linear solvers are deterministic algorithms, not schedules; nothing to fault.",
"C04":"half-span vs full-span equivalence is a relation between two pure evaluations of two configurations.",
"C05":"flow tangency / agreement with an independent Biot-Savart solver: input-quantified, needs an independent oracle, nothing to schedule or fault.",
"C06":"dynamic-pressure, length-scaling and translation laws are metamorphic relations over inputs of pure functions.",
"C07":"mirror-image relation between two pure evaluations.",
"C08":"method-of-images equivalence and far-field limit are pure; the 'ground effect without symmetry is rejected' clause is exercised in C20's error-path table.",
"C09":"Prandtl-Glauert pipeline identity, Mach-0 exactness and continuity in Mach are pure.",
"C10":"beam equilibrium, closed forms, linearity and reciprocity are pure functions of loads and stiffness.",
"C11":"conservation identities of two explicit transfer components over inputs.",
"C13":"documented effect of each geometry variable on the mesh: pure.",
"C14":"mesh generators are pure functions of a dictionary (even num_y / unknown wing_type rejection is exercised in C20).",
"C15":"stress formulas and KS aggregation bounds: pure.",
"C16":"conservation of mass, cg and inertial/fuel/thrust loads: pure.",
"C17":"algebraic identities between outputs of explicit functionals: pure.",
"C18":"sign, monotonicity and mesh independence of drag estimates: pure.",
"C19":"surface order / splitting / wrapper equivalence relate pure evaluations of different configurations; listing order is a configuration, not a schedule.",
}
claimed = json.load(open('/verif/manifest_checks.json'))
ids = [c['property_id'] for c in claimed]
man = {
 "version": 1,
 "setup_cmd": "/venv/bin/python -c \"import sys; sys.path.insert(0,'/repo'); import openmdao, numpy, scipy, openaerostruct; print('ok')\"",
 "hooks": {"guard": "OAS_VERIF", "enable": "no source hooks: every seam the simulator needs already exists (solver plug-in point, instance attributes, set_val, PYTHONHASHSEED, OPENBLAS_NUM_THREADS); checks import /repo's working tree directly",
           "baseline_off_cmd": "cd /repo && /venv/bin/python -m pytest -ra -q -p no:cacheprovider --timeout=900 --continue-on-collection-errors",
           "source_commits": [], "add_only": True},
 "engines": [{"name": "oas-dst", "path": "/verif/sim", "serves_properties": ids,
              "kind_free_text": "deterministic simulation: seeded op/fault histories on live OpenMDAO Problems, seeded faulty schedules of the aerostructural Gauss-Seidel exchange, seeded interleavings of independent Problems; reference-model oracles; ddmin shrinking; replay files"}],
 "checks": claimed,
 "not_applicable": [{"property_id": k, "reason": v} for k, v in sorted(NA.items()) if k not in ids] + json.load(open('/verif/manifest_pending.json')),
 "notes": "Technique family: deterministic simulation with fault injection. See DESIGN.md. Genuine defects found and repaired in /repo are listed in known_findings.json (fixed: F1-F5).",
}
json.dump(man, open('/verif/MANIFEST.json','w'), indent=1)
import jsonschema
jsonschema.validate(man, json.load(open('/root/.vp/MANIFEST.schema.json')))
print('manifest ok', ids, len(man['not_applicable']))
