#!/bin/sh
# Apply each seeded change to /repo itself (as the brief describes), run the detecting quick check(s), undo it straight
# afterwards. Do not run while a background `vp run` is using /repo. Usage: tools_run_seeded_on_repo.sh [S01 S02 ...]
cd /verif || exit 2
ids="$@"; [ -z "$ids" ] && ids=$(ls seeded | grep '^S')
for id in $ids; do
  props=$(python3 -c "import json;m=json.load(open('seeded/$id/meta.json'));print(' '.join(k for k,v in m.get('detection',{}).items() if str(v).startswith('caught')) or m['property'])")
  git -C /repo diff --quiet || { echo "/repo has local modifications; refusing"; exit 2; }
  git -C /repo apply /verif/seeded/$id/patch.diff || { echo "$id: patch does not apply"; continue; }
  for p in $props; do
    VERIF_EVIDENCE_DIR=/dev/shm/seeded-ev VERIF_REPLAY_DIR=/dev/shm/seeded-rp ./check $p quick > /dev/shm/seeded-$id-$p.log 2>&1
    echo "$id $p exit=$? $(grep 'class=' /dev/shm/seeded-$id-$p.log | head -1 | sed 's/ err=.*//')"
  done
  git -C /repo checkout -- .
done
rm -rf /dev/shm/seeded-ev /dev/shm/seeded-rp
