"""Configuration zoo: small OpenAeroStruct models assembled from the public groups only.

``build(spec)`` returns a ``Model`` (Problem after ``setup()``, independent inputs with admissible
ranges, functions of interest, user-owned dicts). ``spec`` is a JSON-able dict so that replay files
are self-contained. Nothing here draws random numbers: all swarm choices are made by the caller and
recorded in ``spec``.
"""
import copy
import numpy as np

from .core import HarnessError

ZOO = {}


def entry(name):
    def deco(fn):
        ZOO[name] = fn
        return fn

    return deco


class Inp:
    """An independent input with an admissible range (chosen on inputs, never by looking at outcomes)."""

    def __init__(self, name, nom, kind="rel", lo=-0.1, hi=0.1, special=(), units=None, elementwise=True, c20_special_p=None):
        self.name = name
        self.nom = np.atleast_1d(np.array(nom, dtype=float))
        self.kind = kind  # "rel": nom*(1+u), u in [lo,hi];  "abs": nom+u ; "uni": uniform [lo,hi]
        self.lo, self.hi = lo, hi
        self.special = list(special)
        self.units = units
        self.elementwise = elementwise
        # weight of the special values when the C20 program generator draws this input (None: the default 0.15); the
        # values are the same ones every check samples, only met more often where a rare one matters (S14)
        self.c20_special_p = c20_special_p

    def draw(self, nprng, rng, special_p=None):
        """One admissible value. ``rng`` (random.Random) picks the branch, ``nprng`` the numbers."""
        r = rng.random()
        p = 0.15 if special_p is None else special_p
        if self.special and r < p:
            return np.full(self.nom.shape, float(rng.choice(self.special)))
        if r < p + 0.15:
            return self.nom.copy()
        shape = self.nom.shape if self.elementwise else (1,)
        u = nprng.uniform(self.lo, self.hi, size=shape)
        if self.kind == "rel":
            return self.nom * (1.0 + u)
        if self.kind == "abs":
            return self.nom + u
        if self.kind == "uni":
            return np.broadcast_to(u, self.nom.shape).copy() if not self.elementwise else u
        raise HarnessError("bad Inp kind")


class Model:
    def __init__(self, spec, prob, inputs, of, wrt, user_dicts, coupled=(), notes=None, driver=None):
        self.spec = spec
        self.prob = prob
        self.inputs = inputs  # list[Inp]
        self.of = of
        self.wrt = wrt
        self.user_dicts = user_dicts  # user-owned dicts (surfaces, mesh dicts)
        self.coupled = list(coupled)  # absolute paths of coupled groups
        self.notes = notes or {}
        self.driver = driver  # dict(dvs=[(name,lo,hi,scaler)], cons=[...], obj=(name,scaler)) or None

    def inp(self, name):
        for i in self.inputs:
            if i.name == name:
                return i
        raise KeyError(name)

    def nominal_point(self):
        return {i.name: i.nom.copy() for i in self.inputs}

    def set_point(self, pt):
        for k, v in pt.items():
            self.prob.set_val(k, np.asarray(v, dtype=float).reshape(self._shape(k)))

    def _shape(self, name):
        return np.shape(self.prob.get_val(name))


# ------------------------------------------------------------------------------------------------
# surface helpers
# ------------------------------------------------------------------------------------------------


# Arrays the "user" created, registered with their SHA-256 at the moment of creation - i.e. before any
# OpenAeroStruct function other than the mesh generator that produced them has seen them. A digest taken
# only after the model is built would miss an in-place edit made *during* set-up.
_EARLY = None
_MESH_OPTS = {}  # per-build overrides of mesh-dict options (spec["mesh_opts"]), e.g. span_cos_spacing
_SURF_OPTS = {}  # per-build overrides of surface-dict options (spec["surf_opts"]): option combinations of the swarm


def _early(label, arr):
    if _EARLY is not None and isinstance(arr, np.ndarray):
        import hashlib

        _EARLY.append((label, arr, hashlib.sha256(np.ascontiguousarray(arr).tobytes()).hexdigest()[:16]))
    return arr


def early_changed(model):
    """Label of the first user array whose bytes differ from what they were at creation, else None."""
    import hashlib

    for label, arr, dig in getattr(model, "early", []):
        if hashlib.sha256(np.ascontiguousarray(arr).tobytes()).hexdigest()[:16] != dig:
            return label
    return None


# Sharing of user-owned objects between tenants of one program (C20): None, or
# {"level": "mesh" | "surface", "reg": {}}. With "mesh" the *same* mesh ndarray (and mesh dict) is handed to
# every builder asking for the same mesh, as the documented multipoint / drag-polar scripts do; with
# "surface" the same surface dict object is reused as well.
SHARE = None


def _gen_mesh(wing_type, nx, ny, symmetry, **kw):
    from openaerostruct.geometry.utils import generate_mesh
    from .core import digest

    key = ("mesh", wing_type, nx, ny, symmetry, digest(kw), digest(_MESH_OPTS))
    if SHARE is not None and key in SHARE["reg"]:
        return SHARE["reg"][key]
    md = {"num_y": ny, "num_x": nx, "wing_type": wing_type, "symmetry": symmetry}
    md.update(kw)
    if _MESH_OPTS:
        md.update(_MESH_OPTS)
    out = generate_mesh(md)
    if "CRM" in wing_type:
        mesh, twist_cp = out
    else:
        mesh, twist_cp = out, None
    _early("mesh:%s:%dx%d" % (wing_type, nx, ny), mesh)
    if SHARE is not None:
        SHARE["reg"][key] = (md, mesh, twist_cp)
    return md, mesh, twist_cp


# Memory addresses are a source of nondeterminism like any other: whether a new object lands at the address of a dead
# one is allocator luck in a user's script, and state keyed by id() depends on it. The scheduler owns it here: DEAD_IDS
# holds the addresses of user surface dicts of Problems that were dropped and collected (filled by C20's drop op); the next
# surface dict is then deliberately allocated at one of them, by allocating empty dicts until one lands there (the others
# are released again). Nothing is patched: it is what a script that creates a few more dicts in between may get anyway.
DEAD_IDS = []
ADDRESS_REUSED = [0]


def _dict_at_dead_address():
    if not DEAD_IDS:
        return None
    dead = set(DEAD_IDS)
    held = []
    found = None
    for _ in range(60000):
        d = {}
        if id(d) in dead:
            found = d
            break
        held.append(d)
    del held
    if found is not None:
        DEAD_IDS.remove(id(found))
        ADDRESS_REUSED[0] += 1
    return found


def note_dead(model):
    """Called right before a tenant is dropped: remember where its surface dicts live."""
    for d in model.user_dicts:
        if isinstance(d, dict) and "mesh" in d and "name" in d:
            DEAD_IDS.append(id(d))
    del DEAD_IDS[:-8]


def _aero_surface(name, mesh, symmetry, twist_cp=None, viscous=True, wave=False, **kw):
    s = _aero_surface_content(name, mesh, symmetry, twist_cp, viscous, wave, **kw)
    if SHARE is not None and SHARE.get("level") == "surface":
        # only tenants built from the identical configuration may share a surface dict: a builder for
        # another configuration would write other properties into it after the first tenant's setup
        # (that is the user editing a dict under a live Problem - user error, not an OAS defect)
        key = ("surf", name, id(mesh), SHARE.get("ctx"))
        if key in SHARE["reg"]:
            return SHARE["reg"][key]  # the caller re-applies identical properties to the shared dict
        SHARE["reg"][key] = s
        return s
    at = _dict_at_dead_address()
    if at is not None:
        at.update(s)
        s = at
    return s


def _aero_surface_content(name, mesh, symmetry, twist_cp=None, viscous=True, wave=False, **kw):
    s = {
        "name": name,
        "symmetry": symmetry,
        "S_ref_type": "wetted",
        "mesh": mesh,
        "CL0": 0.0,
        "CD0": 0.015,
        "k_lam": 0.05,
        "t_over_c_cp": np.array([0.15]),
        "c_max_t": 0.303,
        "with_viscous": viscous,
        "with_wave": wave,
    }
    if twist_cp is not None:
        s["twist_cp"] = np.array(twist_cp, dtype=float)
    s.update(kw)
    s.update(_SURF_OPTS)
    return s


def _tube_props(**kw):
    d = {
        "fem_model_type": "tube",
        "E": 70.0e9,
        "G": 30.0e9,
        "yield": 500.0e6 / 2.5,
        "mrho": 3.0e3,
        "fem_origin": 0.35,
        "wing_weight_ratio": 2.0,
        "struct_weight_relief": False,
        "distributed_fuel_weight": False,
        "exact_failure_constraint": False,
    }
    d.update(kw)
    return d


def _wingbox_props(n_cp, **kw):
    from . import zoo_data as zd

    d = {
        "fem_model_type": "wingbox",
        "spar_thickness_cp": np.linspace(0.004, 0.01, n_cp),
        "skin_thickness_cp": np.linspace(0.005, 0.026, n_cp),
        "data_x_upper": zd.upper_x.copy(),
        "data_x_lower": zd.lower_x.copy(),
        "data_y_upper": zd.upper_y.copy(),
        "data_y_lower": zd.lower_y.copy(),
        "strength_factor_for_upper_skin": 1.0,
        "original_wingbox_airfoil_t_over_c": 0.12,
        "E": 73.1e9,
        "G": 73.1e9 / 2 / 1.33,
        "yield": 420.0e6 / 1.5,
        "mrho": 2.78e3,
        "wing_weight_ratio": 1.25,
        "struct_weight_relief": False,
        "distributed_fuel_weight": False,
        "exact_failure_constraint": False,
        "fuel_density": 803.0,
        "Wf_reserve": 15000.0,
    }
    d.update(kw)
    d.update({k: v for k, v in _SURF_OPTS.items() if k in d})  # option swarm may override structural properties too
    return d


def _span_of(mesh, symmetry):
    y = mesh[0, :, 1]
    return float(2.0 * np.max(np.abs(y))) if symmetry else float(y.max() - y.min())


def _flight_ivc(om, vals):
    ivc = om.IndepVarComp()
    for name, (val, units) in vals.items():
        ivc.add_output(name, val=val, units=units)
    return ivc


def _register_user_arrays_before_setup(prob):
    """Hash every array reachable from the surface dicts handed to OAS groups as options - *before*
    prob.setup() runs any OAS setup() - so that an in-place edit during set-up is seen."""
    if _EARLY is None:
        return
    seen = set(id(a) for _l, a, _d in _EARLY)

    def walk(label, o, depth=0):
        if isinstance(o, np.ndarray):
            if id(o) not in seen:
                seen.add(id(o))
                _early(label, o)
        elif isinstance(o, dict) and depth < 4:
            for k in sorted(o, key=str):
                walk(label + "/" + str(k), o[k], depth + 1)
        elif isinstance(o, (list, tuple)) and depth < 4:
            for i, x in enumerate(o):
                walk(label + "/%d" % i, x, depth + 1)

    def systems(g):
        yield g
        for sub in getattr(g, "_static_subsystems_allprocs", {}).values():
            yield from systems(sub.system)

    for sysm in systems(prob.model):
        for key in ("surface", "surfaces"):
            try:
                val = sysm.options[key]
            except Exception:
                continue
            walk("surface", val)


def _setup(prob, spec, driver=None):
    _register_user_arrays_before_setup(prob)
    if spec.get("driver") and driver:
        import openmdao.api as om

        prob.driver = om.ScipyOptimizeDriver()
        prob.driver.options["optimizer"] = "SLSQP"
        prob.driver.options["tol"] = 1e-9
        prob.driver.options["disp"] = False
        for name, lo, hi, scaler in driver["dvs"]:
            prob.model.add_design_var(name, lower=lo, upper=hi, scaler=scaler)
        for name, kind, val in driver["cons"]:
            prob.model.add_constraint(name, **{kind: val})
        prob.model.add_objective(driver["obj"][0], scaler=driver["obj"][1])
    prob.setup(mode=spec.get("mode", "auto"), force_alloc_complex=bool(spec.get("force_alloc_complex", True)))
    prob.set_solver_print(-1)


# ------------------------------------------------------------------------------------------------
# aero-only models
# ------------------------------------------------------------------------------------------------


def _aero_problem(spec, surfaces, flight, geom=True, rotational=False, compressible=False, extra_ivc=None, driver=None, user_sref=False):
    import openmdao.api as om
    from openaerostruct.geometry.geometry_group import Geometry
    from openaerostruct.aerodynamics.aero_groups import AeroPoint

    prob = om.Problem(reports=False)
    vals = dict(flight)
    if extra_ivc:
        vals.update(extra_ivc)
    if user_sref:
        vals["S_ref_total"] = (400.0, "m**2")
    prob.model.add_subsystem("prob_vars", _flight_ivc(om, vals), promotes=["*"])
    pn = "aero_point_0"
    prom = [k for k in vals if k in ("v", "alpha", "beta", "Mach_number", "re", "rho", "cg", "omega", "height_agl", "S_ref_total")]
    for s in surfaces:
        prob.model.add_subsystem(s["name"], Geometry(surface=s))
    prob.model.add_subsystem(
        pn, AeroPoint(surfaces=surfaces, rotational=rotational, compressible=compressible, user_specified_Sref=user_sref),
        promotes_inputs=prom,
    )
    for s in surfaces:
        n = s["name"]
        prob.model.connect(n + ".mesh", pn + "." + n + ".def_mesh")
        prob.model.connect(n + ".mesh", pn + ".aero_states." + n + "_def_mesh")
        if "t_over_c_cp" in s:
            prob.model.connect(n + ".t_over_c", pn + "." + n + "_perf.t_over_c")
    _setup(prob, spec, driver)
    return prob, pn


FLIGHT_CRUISE = {
    "v": (248.136, "m/s"),
    "alpha": (5.0, "deg"),
    "Mach_number": (0.84, None),
    "re": (1.0e6, "1/m"),
    "rho": (0.38, "kg/m**3"),
    "cg": (np.zeros(3), "m"),
}


def _flight_inputs(alpha=(2.0, 8.0), mach=(0.6, 0.86), with_cg=True):
    inp = [
        Inp("v", 248.136, "rel", -0.15, 0.15),
        Inp("alpha", 5.0, "uni", alpha[0], alpha[1]),
        Inp("Mach_number", 0.84, "uni", mach[0], mach[1], special=[0.5]),
        Inp("re", 1.0e6, "rel", -0.3, 0.3),
        Inp("rho", 0.38, "rel", -0.2, 0.2),
    ]
    if with_cg:
        inp.append(Inp("cg", np.zeros(3), "abs", -2.0, 2.0, special=[0.0]))
    return inp


@entry("Z1")
def z1(spec):
    """AeroPoint, one symmetric CRM surface, viscous + wave drag, every geometry DV."""
    nx, ny = spec.get("nx", 2), spec.get("ny", 5)
    md, mesh, twist_cp = _gen_mesh(spec.get("wing_type", "CRM"), nx, ny, True, num_twist_cp=3)
    if spec.get("right"):
        # the symmetric half given as the right wing (centreline first): VortexMesh has its own branch for it
        mesh = mesh[:, ::-1, :].copy()
        mesh[:, :, 1] *= -1.0
        _early("mesh:right", mesh)
    span = _span_of(mesh, True)
    s = _aero_surface(
        "wing",
        mesh,
        True,
        twist_cp,
        viscous=True,
        wave=True,
        chord_cp=np.ones(2),
        xshear_cp=np.zeros(2),
        yshear_cp=np.zeros(2),
        zshear_cp=np.zeros(2),
        taper=1.0,
        sweep=0.0,
        dihedral=0.0,
        span=span,
        t_over_c_cp=np.array([0.12, 0.14]),
    )
    pn = "aero_point_0"
    driver = dict(
        dvs=[("wing.twist_cp", -10, 15, 1.0), ("wing.chord_cp", 0.5, 1.5, 1.0), ("alpha", -5, 10, 1.0)],
        cons=[(pn + ".wing_perf.CL", "equals", 0.5)],
        obj=(pn + ".wing_perf.CD", 1e4),
    )
    prob, pn = _aero_problem(spec, [s], FLIGHT_CRUISE, driver=driver, user_sref=bool(spec.get("user_sref")))
    inputs = _flight_inputs() + ([Inp("S_ref_total", 400.0, "rel", -0.2, 0.2)] if spec.get("user_sref") else []) + [
        Inp("wing.twist_cp", twist_cp, "abs", -2.0, 2.0),
        Inp("wing.chord_cp", np.ones(2), "uni", 0.8, 1.2, special=[1.0]),
        Inp("wing.xshear_cp", np.zeros(2), "uni", -0.5, 0.5, special=[0.0]),
        Inp("wing.yshear_cp", np.zeros(2), "uni", -0.3, 0.3, special=[0.0]),
        Inp("wing.zshear_cp", np.zeros(2), "uni", -0.5, 0.5, special=[0.0]),
        Inp("wing.taper", 1.0, "uni", 0.6, 1.2, special=[1.0]),
        Inp("wing.sweep", 0.0, "uni", -5.0, 15.0, special=[0.0]),
        Inp("wing.dihedral", 0.0, "uni", -3.0, 8.0, special=[0.0]),
        Inp("wing.span", span, "rel", -0.1, 0.1),
        Inp("wing.t_over_c_cp", np.array([0.12, 0.14]), "rel", -0.2, 0.2),
    ]
    of = [pn + ".CL", pn + ".CD", pn + ".CM", pn + ".total_perf.moment.M", pn + ".wing_perf.CDw", pn + ".wing_perf.CDv"]
    wrt = [i.name for i in inputs]
    return Model(spec, prob, inputs, of, wrt, [s, md], driver=driver)


@entry("Z2")
def z2(spec):
    """AeroPoint, wing + tail, full span, rotational=True, sideslip."""
    nx, ny = spec.get("nx", 2), spec.get("ny", 5)
    md1, mesh1, _ = _gen_mesh("rect", nx, ny, False, span=10.0, root_chord=1.5)
    md2, mesh2, _ = _gen_mesh("rect", 2, 3, False, span=4.0, root_chord=0.8, offset=np.array([6.0, 0.0, 0.5]))
    wing = _aero_surface("wing", mesh1, False, np.array([1.0, 0.0, 1.0]), viscous=True, sweep=0.0, dihedral=0.0)
    tail = _aero_surface("tail", mesh2, False, np.array([0.0]), viscous=False, CD0=0.0)
    flight = dict(FLIGHT_CRUISE)
    flight["beta"] = (2.0, "deg")
    flight["omega"] = (np.array([5.0, 3.0, -2.0]), "deg/s")
    flight["cg"] = (np.array([0.5, 0.0, 0.0]), "m")
    flight["Mach_number"] = (0.3, None)
    flight["v"] = (100.0, "m/s")
    prob, pn = _aero_problem(spec, [wing, tail], flight, rotational=True)
    inputs = [
        Inp("v", 100.0, "rel", -0.15, 0.15),
        Inp("alpha", 5.0, "uni", 2.0, 8.0),
        Inp("beta", 2.0, "uni", -5.0, 5.0, special=[0.0]),
        Inp("Mach_number", 0.3, "uni", 0.2, 0.5),
        Inp("re", 1.0e6, "rel", -0.3, 0.3),
        Inp("rho", 0.38, "rel", -0.2, 0.2),
        Inp("cg", np.array([0.5, 0.0, 0.0]), "abs", -1.0, 1.0),
        Inp("omega", np.array([5.0, 3.0, -2.0]), "abs", -10.0, 10.0, special=[0.0]),
        Inp("wing.twist_cp", np.array([1.0, 0.0, 1.0]), "abs", -2.0, 2.0, special=[0.0]),
        Inp("wing.sweep", 0.0, "uni", -5.0, 15.0, special=[0.0]),
        Inp("wing.dihedral", 0.0, "uni", -3.0, 8.0, special=[0.0]),
        Inp("tail.twist_cp", np.array([0.0]), "abs", -3.0, 3.0, special=[0.0]),
    ]
    of = [pn + ".CL", pn + ".CD", pn + ".CM", pn + ".total_perf.moment.M"]
    return Model(spec, prob, inputs, of, [i.name for i in inputs], [wing, tail, md1, md2])


@entry("Z3")
def z3(spec):
    """Ground effect, symmetric half (left or right half by spec['right'])."""
    nx, ny = spec.get("nx", 2), spec.get("ny", 5)
    md, mesh, twist_cp = _gen_mesh("CRM", nx, ny, True, num_twist_cp=3)
    if spec.get("right"):
        mesh = mesh[:, ::-1, :].copy()
        mesh[:, :, 1] *= -1.0
        _early("mesh:right", mesh)
    s = _aero_surface("wing", mesh, True, twist_cp, viscous=True, groundplane=True, sweep=0.0)
    surfaces = [s]
    extra_user = []
    if spec.get("tail"):
        md2, mesh2, _ = _gen_mesh("rect", 2, 5, True, span=20.0, root_chord=3.0, offset=np.array([50.0, 0.0, 2.0]))
        if spec.get("right"):
            mesh2 = mesh2[:, ::-1, :].copy()
            mesh2[:, :, 1] *= -1.0
        tail = _aero_surface("tail", mesh2, True, np.array([0.0, 0.0]), viscous=False, CD0=0.0, groundplane=True, sweep=0.0)
        surfaces.append(tail)
        extra_user = [tail, md2]
    flight = dict(FLIGHT_CRUISE)
    flight["height_agl"] = (20.0, "m")
    flight["Mach_number"] = (0.3, None)
    flight["v"] = (80.0, "m/s")
    prob, pn = _aero_problem(spec, surfaces, flight)
    inputs = [
        Inp("v", 80.0, "rel", -0.15, 0.15),
        Inp("alpha", 5.0, "uni", 2.0, 8.0),
        Inp("Mach_number", 0.3, "uni", 0.2, 0.5),
        Inp("re", 1.0e6, "rel", -0.3, 0.3),
        Inp("rho", 0.38, "rel", -0.2, 0.2),
        Inp("cg", np.zeros(3), "abs", -2.0, 2.0, special=[0.0]),
        Inp("height_agl", 20.0, "uni", 8.0, 200.0, special=[8000.0]),
        Inp("wing.twist_cp", twist_cp, "abs", -2.0, 2.0),
        Inp("wing.sweep", 0.0, "uni", -5.0, 10.0, special=[0.0]),
    ]
    if spec.get("tail"):
        inputs += [Inp("tail.twist_cp", np.array([0.0, 0.0]), "abs", -3.0, 3.0, special=[0.0]),
                   Inp("tail.sweep", 0.0, "uni", -5.0, 10.0, special=[0.0])]
    of = [pn + ".CL", pn + ".CD", pn + ".CM", pn + ".total_perf.moment.M"]
    return Model(spec, prob, inputs, of, [i.name for i in inputs], [s, md] + extra_user)


@entry("Z4")
def z4(spec):
    """AeroPoint with compressible=True (Prandtl-Glauert pipeline), CRM symmetric."""
    nx, ny = spec.get("nx", 2), spec.get("ny", 5)
    md, mesh, twist_cp = _gen_mesh("CRM", nx, ny, True, num_twist_cp=3)
    if spec.get("right"):
        mesh = mesh[:, ::-1, :].copy()
        mesh[:, :, 1] *= -1.0
        _early("mesh:right", mesh)
    s = _aero_surface("wing", mesh, True, twist_cp, viscous=True, wave=True, t_over_c_cp=np.array([0.12]))
    flight4 = dict(FLIGHT_CRUISE)
    flight4["beta"] = (0.0, "deg")
    rot = bool(spec.get("rotational"))
    if rot:
        flight4["omega"] = (np.array([3.0, 2.0, -1.0]), "deg/s")
    prob, pn = _aero_problem(spec, [s], flight4, compressible=True, rotational=rot)
    inputs = _flight_inputs(mach=(0.3, 0.8)) + ([Inp("omega", np.array([3.0, 2.0, -1.0]), "abs", -6.0, 6.0, special=[0.0])] if rot else []) + [
        Inp("beta", 0.0, "uni", -4.0, 4.0, special=[0.0]),
        Inp("wing.twist_cp", twist_cp, "abs", -2.0, 2.0),
        Inp("wing.t_over_c_cp", np.array([0.12]), "rel", -0.2, 0.2),
    ]
    of = [pn + ".CL", pn + ".CD", pn + ".CM", pn + ".total_perf.moment.M"]
    return Model(spec, prob, inputs, of, [i.name for i in inputs], [s, md])


@entry("Z5")
def z5(spec):
    """Multi-section surface (MultiSecGeometry + unification + joining comp) feeding AeroPoint."""
    import openmdao.api as om
    from openaerostruct.geometry.geometry_group import MultiSecGeometry, build_sections
    from openaerostruct.geometry.geometry_unification import unify_mesh
    from openaerostruct.aerodynamics.aero_groups import AeroPoint

    ny = spec.get("ny", 5)
    sym = bool(spec.get("sym", True))
    if spec.get("user_meshes"):
        return _z5_user_meshes(spec)
    # spec['nsec3']: three sections with the root section in the middle - with symmetry off that is the only way
    # to reach the mesh generator's right-wing branch; spec['tc']: per-section t/c control points, viscous drag on,
    # the unified t/c connected into the performance group as the documented two-section viscous example does
    nsec = 3 if spec.get("nsec3") else 2
    with_tc = bool(spec.get("tc"))
    sec_chord_cp = [np.array([1.0, 1.0]) for _ in range(nsec)]
    surface = {
        "name": "surface",
        "is_multi_section": True,
        "num_sections": nsec,
        "sec_name": ["sec%d" % i for i in range(nsec)],
        "symmetry": sym,
        "S_ref_type": "wetted",
        "root_section": 1,
        "taper": [1.0, 1.0, 0.8][:nsec],
        "span": [1.0, 1.0, 1.0][:nsec],
        "sweep": [0.0, 0.0, 0.0][:nsec],
        "chord_cp": sec_chord_cp,
        "twist_cp": [np.zeros(2) for _ in range(nsec)],
        "root_chord": 1.0,
        "meshes": "gen-meshes",
        "nx": 2,
        "ny": [ny] * nsec,
        "CL0": 0.0,
        "CD0": 0.015,
        "k_lam": 0.05,
        "c_max_t": 0.303,
        "with_viscous": with_tc,
        "with_wave": False,
        "groundplane": False,
    }
    if with_tc:
        surface["t_over_c_cp"] = [np.array([0.15]), np.array([0.12]), np.array([0.1])][:nsec]
    prob = om.Problem(reports=False)
    flight = {
        "v": (1.0, "m/s"),
        "alpha": (10.0, "deg"),
        "Mach_number": (0.3, None),
        "re": (1.0e5, "1/m"),
        "rho": (0.38, "kg/m**3"),
        "cg": (np.zeros(3), "m"),
    }
    prob.model.add_subsystem("prob_vars", _flight_ivc(om, flight), promotes=["*"])
    section_surfaces = build_sections(surface)
    surface["mesh"] = unify_mesh(section_surfaces)
    prob.model.add_subsystem(
        "surface",
        MultiSecGeometry(surface=surface, joining_comp=True, dim_constr=[np.array([1, 0, 0]) for _ in range(nsec)]),
    )
    user_surfaces = [surface]
    pn = "aero_point_0"
    prob.model.add_subsystem(
        pn, AeroPoint(surfaces=user_surfaces), promotes_inputs=["v", "alpha", "Mach_number", "re", "rho", "cg"]
    )
    uni = "surface.surface_unification.surface_uni_mesh"
    prob.model.connect(uni, pn + ".surface.def_mesh")
    prob.model.connect(uni, pn + ".aero_states.surface_def_mesh")
    if with_tc:
        prob.model.connect("surface.surface_unification.surface_uni_t_over_c", pn + ".surface_perf.t_over_c")
    _setup(prob, spec)
    inputs = [
        Inp("v", 1.0, "rel", -0.15, 0.15),
        Inp("alpha", 10.0, "uni", 2.0, 10.0),
        Inp("rho", 0.38, "rel", -0.2, 0.2),
        Inp("cg", np.zeros(3), "abs", -0.5, 0.5, special=[0.0]),
    ]
    for i in range(nsec):
        inputs.append(Inp("surface.sec%d.chord_cp" % i, np.ones(2), "uni", 0.7, 1.3, special=[1.0]))
    for i in range(nsec):
        inputs.append(Inp("surface.sec%d.twist_cp" % i, np.zeros(2), "uni", -3.0, 3.0, special=[0.0]))
    if with_tc:
        inputs.append(Inp("re", 1.0e5, "rel", -0.3, 0.3))
        for i in range(nsec):
            inputs.append(Inp("surface.sec%d.t_over_c_cp" % i, np.array(surface["t_over_c_cp"][i]), "rel", -0.2, 0.2))
    of = [pn + ".CL", pn + ".CD", pn + ".CM", pn + ".total_perf.moment.M", "surface.surface_joining.section_separation"]
    return Model(spec, prob, inputs, of, [i.name for i in inputs], [surface] + list(section_surfaces))


def _z5_user_meshes(spec):
    """Three-section symmetric surface whose section meshes are supplied by the user (the tip section in
    its own local frame, which is what unify_mesh's shift exists for)."""
    import openmdao.api as om
    from openaerostruct.geometry.geometry_group import MultiSecGeometry, build_sections
    from openaerostruct.geometry.geometry_unification import unify_mesh
    from openaerostruct.aerodynamics.aero_groups import AeroPoint

    ny = spec.get("ny", 5)

    def rect(y_out, y_in, x_le, chord=1.0):
        mesh = np.zeros((2, ny, 3))
        mesh[:, :, 1] = np.linspace(y_out, y_in, ny)
        mesh[0, :, 0] = x_le
        mesh[1, :, 0] = x_le + chord
        return mesh

    m0, m1, m2 = rect(-1.0, 0.0, 0.3), rect(-2.0, -1.0, 0.0), rect(-1.0, 0.0, 0.0)
    for lab, arr in (("meshes/0", m0), ("meshes/1", m1), ("meshes/2", m2)):
        _early(lab, arr)
    surface = {
        "name": "surface", "is_multi_section": True, "num_sections": 3, "sec_name": ["sec0", "sec1", "sec2"],
        "symmetry": True, "S_ref_type": "wetted", "root_section": 2,
        "chord_cp": [np.ones(2), np.ones(2), np.ones(2)], "twist_cp": [np.zeros(2), np.zeros(2), np.zeros(2)],
        "meshes": [m0, m1, m2], "CL0": 0.0, "CD0": 0.015, "k_lam": 0.05, "c_max_t": 0.303,
        "with_viscous": False, "with_wave": False, "groundplane": False,
    }
    prob = om.Problem(reports=False)
    flight = {"v": (1.0, "m/s"), "alpha": (10.0, "deg"), "Mach_number": (0.3, None), "re": (1.0e5, "1/m"),
              "rho": (0.38, "kg/m**3"), "cg": (np.zeros(3), "m")}
    prob.model.add_subsystem("prob_vars", _flight_ivc(om, flight), promotes=["*"])
    prob.model.add_subsystem("surface", MultiSecGeometry(surface=surface, joining_comp=True, dim_constr=[np.ones(3), np.ones(3)]))
    section_surfaces = build_sections(surface)
    surface["mesh"] = unify_mesh(section_surfaces)
    pn = "aero_point_0"
    prob.model.add_subsystem(pn, AeroPoint(surfaces=[surface]), promotes_inputs=["v", "alpha", "Mach_number", "re", "rho", "cg"])
    uni = "surface.surface_unification.surface_uni_mesh"
    prob.model.connect(uni, pn + ".surface.def_mesh")
    prob.model.connect(uni, pn + ".aero_states.surface_def_mesh")
    _setup(prob, spec)
    inputs = [
        Inp("v", 1.0, "rel", -0.15, 0.15),
        Inp("alpha", 10.0, "uni", 2.0, 10.0),
        Inp("rho", 0.38, "rel", -0.2, 0.2),
        Inp("cg", np.zeros(3), "abs", -0.5, 0.5, special=[0.0]),
    ]
    for i in range(3):
        inputs.append(Inp("surface.sec%d.chord_cp" % i, np.ones(2), "uni", 0.7, 1.3, special=[1.0]))
        inputs.append(Inp("surface.sec%d.twist_cp" % i, np.zeros(2), "uni", -3.0, 3.0, special=[0.0]))
    of = [pn + ".CL", pn + ".CD", pn + ".CM", pn + ".total_perf.moment.M", "surface.surface_joining.section_separation"]
    return Model(spec, prob, inputs, of, [i.name for i in inputs], [surface, {"m0": m0, "m1": m1, "m2": m2}] + list(section_surfaces))


# ------------------------------------------------------------------------------------------------
# structures-only models
# ------------------------------------------------------------------------------------------------


def _loads(ny, scale=1.0e4):
    loads = np.zeros((ny, 6))
    loads[:, 2] = scale * np.linspace(1.0, 0.3, ny)
    loads[:, 0] = 0.05 * scale
    loads[:, 4] = 0.2 * scale
    return loads


@entry("Z6")
def z6(spec):
    """SpatialBeamAlone, tube (exact or KS failure by spec['exact'])."""
    import openmdao.api as om
    from openaerostruct.structures.struct_groups import SpatialBeamAlone

    nx, ny = spec.get("nx", 2), spec.get("ny", 5)
    sym6 = not spec.get("full")  # full span: clamped in the middle, MonotonicConstraint's two-sided branch
    md, mesh, twist_cp = _gen_mesh("CRM", nx, ny, sym6, num_twist_cp=3)
    s = {"name": "wing", "symmetry": sym6, "mesh": mesh, "t_over_c_cp": np.array([0.15]), "thickness_cp": np.array([0.05, 0.1, 0.15])}
    s.update(_tube_props(exact_failure_constraint=bool(spec.get("exact", False)), struct_weight_relief=bool(spec.get("relief", False))))
    if spec.get("radius_cp"):
        s["radius_cp"] = np.array([0.3, 0.5, 0.7])  # spar radius prescribed instead of derived from t/c and chord
    nyh = mesh.shape[1]
    prob = om.Problem(reports=False)
    ivc = om.IndepVarComp()
    ivc.add_output("loads", val=_loads(nyh, 2.0e5), units="N")
    ivc.add_output("load_factor", val=1.0)
    prob.model.add_subsystem("prob_vars", ivc, promotes=["*"])
    prob.model.add_subsystem("wing", SpatialBeamAlone(surface=s))
    prob.model.connect("loads", "wing.loads")
    if s["struct_weight_relief"]:
        prob.model.connect("load_factor", "wing.load_factor")
    extra_of, extra_in = [], []
    if spec.get("extras"):
        # stand-alone constraint / bookkeeping components that no group adds by itself, wired as the docs describe
        from openaerostruct.structures.energy import Energy
        from openaerostruct.structures.spar_within_wing import SparWithinWing
        from openaerostruct.geometry.monotonic_constraint import MonotonicConstraint
        from openaerostruct.integration.multipoint_comps import MultiCD

        prob.model.add_subsystem("energy", Energy(surface=s))
        prob.model.connect("wing.disp", "energy.disp")
        prob.model.connect("loads", "energy.loads")
        prob.model.add_subsystem("spar_in_wing", SparWithinWing(surface=s))
        prob.model.connect("wing.mesh", "spar_in_wing.mesh")
        prob.model.connect("wing.radius", "spar_in_wing.radius")
        prob.model.connect("wing.t_over_c", "spar_in_wing.t_over_c")
        prob.model.add_subsystem("mono", MonotonicConstraint(var_name="thickness", surface=s))
        prob.model.connect("wing.thickness", "mono.thickness", src_indices=list(range(nyh - 1)) + [nyh - 2], flat_src_indices=True)
        ivc2 = om.IndepVarComp()
        ivc2.add_output("cd0", val=0.02)
        ivc2.add_output("cd1", val=0.03)
        prob.model.add_subsystem("cds", ivc2, promotes=["*"])
        prob.model.add_subsystem("multi_cd", MultiCD(n_points=2))
        prob.model.connect("cd0", "multi_cd.0_CD")
        prob.model.connect("cd1", "multi_cd.1_CD")
        extra_of = ["energy.energy", "spar_in_wing.spar_within_wing", "mono.monotonic_thickness", "multi_cd.CD"]
        extra_in = [Inp("cd0", 0.02, "rel", -0.5, 0.5), Inp("cd1", 0.03, "rel", -0.5, 0.5)]
    driver = dict(
        dvs=[("wing.thickness_cp", 0.01, 0.5, 1e2)],
        cons=[("wing.failure", "upper", 0.0), ("wing.thickness_intersects", "upper", 0.0)],
        obj=("wing.structural_mass", 1e-4),
    )
    _setup(prob, spec, driver)
    inputs = [
        Inp("loads", _loads(nyh, 2.0e5), "rel", -0.5, 0.5, special=[0.0]),
    ] + ([Inp("load_factor", 1.0, "uni", 0.5, 2.5, special=[1.0, 0.0])] if s["struct_weight_relief"] else []) + [
        # the very thin values are admissible (an optimiser's infeasible iterates): stresses far beyond the
        # allowable, where the KS aggregate has to stay finite
        Inp("wing.thickness_cp", np.array([0.05, 0.1, 0.15]), "rel", -0.3, 0.5, special=[0.004, 0.002, 0.5], c20_special_p=0.4),
        Inp("wing.geometry.t_over_c_cp", np.array([0.15]), "rel", -0.2, 0.2),
    ]
    if spec.get("radius_cp"):
        inputs.append(Inp("wing.tube_group.radius_cp", np.array([0.3, 0.5, 0.7]), "rel", -0.2, 0.3))
    inputs = inputs + extra_in
    of = ["wing.failure", "wing.structural_mass", "wing.vonmises", "wing.disp", "wing.thickness_intersects"] + extra_of
    return Model(spec, prob, inputs, of, [i.name for i in inputs], [s, md], driver=driver)


@entry("Z7")
def z7(spec):
    """SpatialBeamAlone, wingbox + point masses + thrust + weight relief."""
    import openmdao.api as om
    from openaerostruct.structures.struct_groups import SpatialBeamAlone

    nx, ny = spec.get("nx", 2), spec.get("ny", 7)
    md, mesh, twist_cp = _gen_mesh("CRM", nx, ny, True, num_twist_cp=3, chord_cos_spacing=0, span_cos_spacing=0)
    s = {"name": "wing", "symmetry": True, "mesh": mesh, "t_over_c_cp": np.array([0.08, 0.10, 0.08]), "n_point_masses": 1}
    s.update(_wingbox_props(3, struct_weight_relief=True, exact_failure_constraint=bool(spec.get("exact", False))))
    nyh = mesh.shape[1]
    prob = om.Problem(reports=False)
    ivc = om.IndepVarComp()
    ivc.add_output("loads", val=_loads(nyh, 5e4), units="N")
    ivc.add_output("load_factor", val=1.0)
    ivc.add_output("point_masses", val=np.array([[8000.0]]), units="kg")
    ivc.add_output("engine_thrusts", val=np.array([[80.0e3]]), units="N")
    pm_loc7 = np.array([[25.0, float(mesh[0, nyh // 2, 1]), -1.0]])  # on a node's spanwise station
    ivc.add_output("point_mass_locations", val=pm_loc7, units="m")
    prob.model.add_subsystem("prob_vars", ivc, promotes=["*"])
    prob.model.add_subsystem("wing", SpatialBeamAlone(surface=s))
    for v in ("loads", "load_factor", "point_masses", "engine_thrusts", "point_mass_locations"):
        prob.model.connect(v, "wing." + v)
    _setup(prob, spec)
    inputs = [
        Inp("loads", _loads(nyh, 5e4), "rel", -0.5, 0.5, special=[0.0]),
        Inp("load_factor", 1.0, "uni", 0.5, 2.5, special=[1.0, 0.0]),
        Inp("point_masses", np.array([[8000.0]]), "rel", -0.5, 0.5, special=[0.0]),
        Inp("engine_thrusts", np.array([[80.0e3]]), "rel", -0.5, 0.5, special=[0.0]),
        Inp("point_mass_locations", pm_loc7, "abs", -1.0, 1.0),
        Inp("wing.spar_thickness_cp", np.linspace(0.004, 0.01, 3), "rel", -0.2, 0.5),
        Inp("wing.skin_thickness_cp", np.linspace(0.005, 0.026, 3), "rel", -0.2, 0.5),
        Inp("wing.geometry.t_over_c_cp", np.array([0.08, 0.10, 0.08]), "rel", -0.1, 0.3),
    ]
    of = ["wing.failure", "wing.structural_mass", "wing.vonmises", "wing.disp"]
    return Model(spec, prob, inputs, of, [i.name for i in inputs], [s, md])


# ------------------------------------------------------------------------------------------------
# aerostructural models
# ------------------------------------------------------------------------------------------------


def _as_problem(spec, surfaces, flight, n_points=1, compressible=False, rotational=False, per_point=None,
                fuel_vol=False, point_mass_vals=None, ground=False, driver=None):
    """Assemble AerostructGeometry per surface + n AerostructPoint groups, wired as the docs do."""
    import openmdao.api as om
    from openaerostruct.integration.aerostruct_groups import AerostructGeometry, AerostructPoint

    prob = om.Problem(reports=False)
    per_point = per_point or []
    vals = dict(flight)
    if point_mass_vals:
        vals.update(point_mass_vals)
    prob.model.add_subsystem("prob_vars", _flight_ivc(om, vals), promotes=["*"])
    for s in surfaces:
        prob.model.add_subsystem(s["name"], AerostructGeometry(surface=s))
    multipoint = n_points > 1
    coupled_paths = []
    for i in range(n_points):
        pn = "AS_point_%d" % i
        prob.model.add_subsystem(
            pn,
            AerostructPoint(
                surfaces=surfaces,
                compressible=compressible,
                rotational=rotational,
                internally_connect_fuelburn=not fuel_vol,
            ),
        )
        coupled_paths.append(pn + ".coupled")
        for v in ("v", "alpha", "Mach_number", "re", "rho", "CT", "R", "W0", "speed_of_sound", "empty_cg", "load_factor"):
            if v in per_point:
                prob.model.connect(v, pn + "." + v, src_indices=[i])
            else:
                prob.model.connect(v, pn + "." + v)
        if "beta" in vals:
            prob.model.connect("beta", pn + ".beta")
        if rotational:
            # omega comes from the flight-condition IVC; the rotation centre is left as a free input of the point
            # (set with set_val, as the documented roll example does), not wired to anything
            prob.model.connect("omega", pn + ".coupled.aero_states.omega")
        if ground:
            prob.model.connect("height_agl", pn + ".height_agl")
        needs_lf = any(
            s["struct_weight_relief"] or s["distributed_fuel_weight"] or "n_point_masses" in s for s in surfaces
        )
        if needs_lf:
            if "load_factor" in per_point:
                prob.model.connect("load_factor", pn + ".coupled.load_factor", src_indices=[i])
            else:
                prob.model.connect("load_factor", pn + ".coupled.load_factor")
        if fuel_vol:
            prob.model.connect("fuel_mass", pn + ".total_perf.L_equals_W.fuelburn")
            prob.model.connect("fuel_mass", pn + ".total_perf.CG.fuelburn")
        for s in surfaces:
            n = s["name"]
            com = pn + "." + n + "_perf."
            prob.model.connect(n + ".local_stiff_transformed", pn + ".coupled." + n + ".local_stiff_transformed")
            prob.model.connect(n + ".nodes", pn + ".coupled." + n + ".nodes")
            prob.model.connect(n + ".mesh", pn + ".coupled." + n + ".mesh")
            if s["struct_weight_relief"]:
                prob.model.connect(n + ".element_mass", pn + ".coupled." + n + ".element_mass")
            prob.model.connect(n + ".nodes", com + "nodes")
            prob.model.connect(n + ".cg_location", pn + ".total_perf." + n + "_cg_location")
            prob.model.connect(n + ".structural_mass", pn + ".total_perf." + n + "_structural_mass")
            prob.model.connect(n + ".t_over_c", com + "t_over_c")
            if s["fem_model_type"] == "tube":
                prob.model.connect(n + ".radius", com + "radius")
                prob.model.connect(n + ".thickness", com + "thickness")
            else:
                for v in ("Qz", "J", "A_enc", "htop", "hbottom", "hfront", "hrear", "spar_thickness"):
                    prob.model.connect(n + "." + v, com + v)
                if s["distributed_fuel_weight"]:
                    prob.model.connect(n + ".struct_setup.fuel_vols", pn + ".coupled." + n + ".struct_states.fuel_vols")
                    prob.model.connect("fuel_mass", pn + ".coupled." + n + ".struct_states.fuel_mass")
            if "n_point_masses" in s:
                cn = pn + ".coupled." + n
                prob.model.connect("point_masses", cn + ".point_masses")
                prob.model.connect("engine_thrusts", cn + ".engine_thrusts")
                prob.model.connect("point_mass_locations", cn + ".point_mass_locations")
    if fuel_vol:
        from openaerostruct.structures.wingbox_fuel_vol_delta import WingboxFuelVolDelta

        s0 = surfaces[0]
        prob.model.add_subsystem("fuel_vol_delta", WingboxFuelVolDelta(surface=s0))
        prob.model.connect(s0["name"] + ".struct_setup.fuel_vols", "fuel_vol_delta.fuel_vols")
        prob.model.connect("AS_point_0.fuelburn", "fuel_vol_delta.fuelburn")
        # The documented example writes (fuel_mass - fuelburn) / fuelburn. ExecComp differentiates by complex step, and in
        # that form d/d fuelburn is the difference of two nearly equal terms when fuel_mass << fuelburn (relative round-off
        # eps * fuelburn / fuel_mass: 3e-6 at the "tanks almost empty" points of this zoo) - noise of the user's own
        # expression, which a thorough run duly reported as a history effect (DESIGN 12.8 addendum 4). Same function,
        # well-conditioned form:
        comp = om.ExecComp("fuel_diff = fuel_mass / fuelburn - 1.0", units="kg")
        prob.model.add_subsystem("fuel_diff", comp, promotes_inputs=["fuel_mass"], promotes_outputs=["fuel_diff"])
        prob.model.connect("AS_point_0.fuelburn", "fuel_diff.fuelburn")
    _setup(prob, spec, driver)
    return prob, coupled_paths


def tighten_coupled(model, atol=None, rtol=None):
    """Public-option tightening of the coupled solver so 'to solver tolerance' cannot mask history."""
    for path in model.coupled:
        g = model.prob.model._get_subsystem(path)
        nl = g.nonlinear_solver
        if atol is not None:
            nl.options["atol"] = atol
        if rtol is not None:
            nl.options["rtol"] = rtol


def _as_flight(alpha=5.0, tube=True):
    from openaerostruct.utils.constants import grav_constant

    if tube:
        return {
            "v": (248.136, "m/s"),
            "alpha": (alpha, "deg"),
            "Mach_number": (0.84, None),
            "re": (1.0e6, "1/m"),
            "rho": (0.38, "kg/m**3"),
            "CT": (grav_constant * 17.0e-6, "1/s"),
            "R": (11.165e6, "m"),
            "W0": (0.4 * 3e5, "kg"),
            "speed_of_sound": (295.4, "m/s"),
            "load_factor": (1.0, None),
            "empty_cg": (np.zeros(3), "m"),
        }
    return {
        "v": (0.85 * 295.07, "m/s"),
        "alpha": (alpha, "deg"),
        "Mach_number": (0.85, None),
        "re": (0.348 * 295.07 * 0.85 / (1.43e-5), "1/m"),
        "rho": (0.348, "kg/m**3"),
        "CT": (0.53 / 3600, "1/s"),
        "R": (14.307e6, "m"),
        "W0": (148000.0 + 15000.0, "kg"),
        "speed_of_sound": (295.07, "m/s"),
        "load_factor": (1.0, None),
        "empty_cg": (np.zeros(3), "m"),
    }


def is_wind_off(point):
    """rho = 0 (wind-off): the coupled state is well defined (weight loads only) while coefficient-type functionals
    are 0/0; such a point is compared NaN-pattern-aware and never linearised."""
    r = point.get("rho") if point else None
    return r is not None and np.all(np.asarray(r) == 0.0)


def _as_inputs(flight, alpha=(3.0, 8.0), mach=None, wind_off=False):
    g = lambda k: flight[k][0]  # noqa
    inp = [
        Inp("v", g("v"), "rel", -0.1, 0.1),
        Inp("alpha", g("alpha"), "uni", alpha[0], alpha[1]),
        Inp("re", g("re"), "rel", -0.3, 0.3),
        Inp("rho", g("rho"), "rel", -0.2, 0.2, special=([0.0] if wind_off else [])),
        Inp("CT", g("CT"), "rel", -0.2, 0.2),
        Inp("R", g("R"), "rel", -0.3, 0.1),
        Inp("W0", g("W0"), "rel", -0.2, 0.2),
        Inp("speed_of_sound", g("speed_of_sound"), "rel", -0.05, 0.05),
        Inp("empty_cg", g("empty_cg"), "abs", -1.0, 1.0, special=[0.0]),
    ]
    if mach:
        inp.append(Inp("Mach_number", g("Mach_number"), "uni", mach[0], mach[1]))
    return inp


@entry("Z8")
def z8(spec):
    """The documented aerostructural walkthrough: CRM tube, symmetric, one point."""
    nx, ny = spec.get("nx", 2), spec.get("ny", 5)
    md, mesh, twist_cp = _gen_mesh("CRM", nx, ny, True, num_twist_cp=3)
    s = _aero_surface("wing", mesh, True, twist_cp, viscous=True, wave=bool(spec.get("wave", False)),
                      thickness_cp=np.array([0.1, 0.2, 0.3]))
    s.update(_tube_props(struct_weight_relief=bool(spec.get("relief", False)), exact_failure_constraint=bool(spec.get("exact", False))))
    if spec.get("geo"):
        # planform design variables on an aerostructural surface (AerostructGeometry promotes them)
        s["sweep"] = 0.0
        s["taper"] = 1.0
    if spec.get("stiff"):
        s["E"] *= spec["stiff"]
        s["G"] *= spec["stiff"]
    pm_vals = None
    if spec.get("pm"):
        # engine as a point mass with thrust, as in the documented engine-thrust example
        s["n_point_masses"] = 1
        # nominal position exactly on the spanwise station of a structural node (the usual way to place an engine),
        # other points move it off the node
        y_node = float(mesh[0, mesh.shape[1] // 2, 1])
        pm_loc = np.array([[25.0, y_node, -1.0]])
        pm_vals = {"point_masses": (np.array([[8000.0]]), "kg"), "engine_thrusts": (np.array([[80.0e3]]), "N"),
                   "point_mass_locations": (pm_loc, "m")}
    flight = _as_flight()
    pn = "AS_point_0"
    driver = dict(
        dvs=[("wing.twist_cp", -10, 15, 1.0), ("wing.thickness_cp", 0.01, 0.5, 1e2), ("alpha", -10, 10, 1.0)],
        cons=[(pn + ".wing_perf.failure", "upper", 0.0), (pn + ".wing_perf.thickness_intersects", "upper", 0.0),
              (pn + ".L_equals_W", "equals", 0.0)],
        obj=(pn + ".fuelburn", 1e-5),
    )
    prob, coupled = _as_problem(spec, [s], flight, driver=driver, point_mass_vals=pm_vals)
    inputs = _as_inputs(flight, mach=(0.7, 0.86), wind_off=bool(spec.get("relief"))) + ([
        Inp("point_masses", np.array([[8000.0]]), "rel", -0.5, 0.5, special=[0.0]),
        Inp("engine_thrusts", np.array([[80.0e3]]), "rel", -0.5, 0.5, special=[0.0]),
        Inp("point_mass_locations", pm_loc, "abs", -1.0, 1.0),
    ] if spec.get("pm") else []) + [
        Inp("load_factor", 1.0, "uni", 0.8, 2.5, special=[1.0]),  # lf = 0 is inadmissible here: L_equals_W divides by W*lf
        Inp("wing.twist_cp", twist_cp, "abs", -2.0, 2.0),
        Inp("wing.thickness_cp", np.array([0.1, 0.2, 0.3]), "rel", -0.3, 0.5),
        Inp("wing.geometry.t_over_c_cp", np.array([0.15]), "rel", -0.2, 0.2),
    ] + ([Inp("wing.sweep", 0.0, "uni", -3.0, 8.0, special=[0.0]), Inp("wing.taper", 1.0, "uni", 0.8, 1.1, special=[1.0])]
         if spec.get("geo") else [])
    pn = "AS_point_0"
    of = [pn + ".fuelburn", pn + ".L_equals_W", pn + ".wing_perf.failure", pn + ".CM", pn + ".total_perf.moment.M",
          pn + ".CL", pn + ".CD", pn + ".wing_perf.thickness_intersects", "wing.structural_mass"]
    return Model(spec, prob, inputs, of, [i.name for i in inputs], [s, md], coupled=coupled, driver=driver)


@entry("Z8R")
def z8r(spec):
    """Rigid twin of Z8: the same surface, geometry and flow in an AeroPoint on the undeformed mesh."""
    nx, ny = spec.get("nx", 2), spec.get("ny", 5)
    md, mesh, twist_cp = _gen_mesh("CRM", nx, ny, True, num_twist_cp=3)
    s = _aero_surface("wing", mesh, True, twist_cp, viscous=True, wave=bool(spec.get("wave", False)))
    flight = {k: v for k, v in _as_flight().items() if k in ("v", "alpha", "Mach_number", "re", "rho")}
    flight["cg"] = (np.zeros(3), "m")
    prob, pn = _aero_problem(spec, [s], flight)
    inputs = [Inp("v", 248.136), Inp("alpha", 5.0), Inp("Mach_number", 0.84), Inp("re", 1.0e6), Inp("rho", 0.38),
              Inp("wing.twist_cp", twist_cp)]
    return Model(spec, prob, inputs, [pn + ".CL"], [i.name for i in inputs], [s, md])


@entry("Z9")
def z9(spec):
    """Aerostructural, two tube surfaces (wing + tail), full span, struct_weight_relief."""
    nx, ny = spec.get("nx", 2), spec.get("ny", 5)
    md1, mesh1, _ = _gen_mesh("rect", nx, ny, False, span=30.0, root_chord=4.0)
    if spec.get("same_shape"):
        # the tail gets the wing's mesh shape (wiring slips between surfaces only go unnoticed by set-up then)
        md2, mesh2, _ = _gen_mesh("rect", nx, ny, False, span=10.0, root_chord=2.0, offset=np.array([20.0, 0.0, 1.0]))
    else:
        md2, mesh2, _ = _gen_mesh("rect", 2, 3, False, span=10.0, root_chord=2.0, offset=np.array([20.0, 0.0, 1.0]))
    wing = _aero_surface("wing", mesh1, False, np.array([2.0, 4.0, 2.0]), viscous=True, thickness_cp=np.array([0.05, 0.08, 0.05]))
    wing.update(_tube_props(struct_weight_relief=True))
    tail = _aero_surface("tail", mesh2, False, np.array([0.0]), viscous=True, thickness_cp=np.array([0.03]))
    tail.update(_tube_props(struct_weight_relief=True))
    if spec.get("stiff"):
        for s_ in (wing, tail):
            s_["E"] *= spec["stiff"]
            s_["G"] *= spec["stiff"]
    flight = _as_flight()
    flight["beta"] = (1.0, "deg")
    rot = bool(spec.get("rotational"))
    if rot:
        flight["omega"] = (np.array([3.0, 2.0, -1.0]), "deg/s")
    prob, coupled = _as_problem(spec, [wing, tail], flight, rotational=rot)
    inputs = _as_inputs(flight, wind_off=True) + ([
        Inp("omega", np.array([3.0, 2.0, -1.0]), "abs", -5.0, 5.0, special=[0.0]),
        Inp("AS_point_0.coupled.aero_states.cg", np.array([2.0, 0.0, 0.0]), "abs", -1.0, 1.0),
    ] if rot else []) + [
        Inp("beta", 1.0, "uni", -3.0, 3.0, special=[0.0]),
        Inp("load_factor", 1.0, "uni", 0.8, 2.5, special=[1.0]),  # lf = 0 is inadmissible here: L_equals_W divides by W*lf
        Inp("wing.twist_cp", np.array([2.0, 4.0, 2.0]), "abs", -1.5, 1.5),
        Inp("wing.thickness_cp", np.array([0.05, 0.08, 0.05]), "rel", -0.2, 0.5),
        Inp("tail.twist_cp", np.array([0.0]), "abs", -2.0, 2.0, special=[0.0]),
        Inp("tail.thickness_cp", np.array([0.03]), "rel", -0.2, 0.5),
    ]
    pn = "AS_point_0"
    of = [pn + ".fuelburn", pn + ".L_equals_W", pn + ".wing_perf.failure", pn + ".tail_perf.failure", pn + ".CM",
          pn + ".total_perf.moment.M", pn + ".CL", pn + ".CD"]
    return Model(spec, prob, inputs, of, [i.name for i in inputs], [wing, tail, md1, md2], coupled=coupled)


def _wingbox_surface(spec, nx, ny, n_cp=3, **kw):
    md, mesh, twist_cp = _gen_mesh("CRM", nx, ny, True, num_twist_cp=n_cp, chord_cos_spacing=0, span_cos_spacing=0)
    s = _aero_surface("wing", mesh, True, np.linspace(4.0, 9.0, n_cp), viscous=True, wave=True, CD0=0.0078,
                      t_over_c_cp=np.linspace(0.08, 0.10, n_cp), c_max_t=0.38)
    s.update(_wingbox_props(n_cp, **kw))
    if spec.get("stiff"):
        s["E"] *= spec["stiff"]
        s["G"] *= spec["stiff"]
    return md, mesh, s


@entry("Z10")
def z10(spec):
    """Aerostructural wingbox + weight relief + distributed fuel + fuel-volume constraint comps."""
    nx, ny = spec.get("nx", 2), spec.get("ny", 7)
    md, mesh, s = _wingbox_surface(spec, nx, ny, struct_weight_relief=True, distributed_fuel_weight=True,
                                   exact_failure_constraint=bool(spec.get("exact", False)))
    if spec.get("no_reserve"):
        s["Wf_reserve"] = 0.0  # with fuel_mass = 0 the tanks are then exactly empty
    flight = _as_flight(alpha=2.0, tube=False)
    flight["fuel_mass"] = (10000.0, "kg")
    prob, coupled = _as_problem(spec, [s], flight, fuel_vol=True)
    inputs = _as_inputs(flight, alpha=(0.0, 4.0), mach=(0.7, 0.87), wind_off=True) + [
        Inp("load_factor", 1.0, "uni", 0.8, 2.5, special=[1.0]),  # lf = 0 is inadmissible here: L_equals_W divides by W*lf
        Inp("fuel_mass", 10000.0, "rel", -0.5, 1.0, special=[0.0]),
        Inp("wing.twist_cp", np.linspace(4.0, 9.0, 3), "abs", -1.5, 1.5),
        Inp("wing.spar_thickness_cp", np.linspace(0.004, 0.01, 3), "rel", -0.2, 0.5),
        Inp("wing.skin_thickness_cp", np.linspace(0.005, 0.026, 3), "rel", -0.2, 0.5),
        Inp("wing.geometry.t_over_c_cp", np.linspace(0.08, 0.10, 3), "rel", -0.1, 0.3),
    ]
    pn = "AS_point_0"
    of = [pn + ".fuelburn", pn + ".CL", pn + ".CD", pn + ".wing_perf.failure", pn + ".CM", pn + ".total_perf.moment.M",
          "fuel_vol_delta.fuel_vol_delta", "fuel_diff", "wing.structural_mass"]
    return Model(spec, prob, inputs, of, [i.name for i in inputs], [s, md], coupled=coupled)


@entry("Z11")
def z11(spec):
    """Aerostructural, compressible (spec['compressible']) and/or ground effect (spec['ground'])."""
    nx, ny = spec.get("nx", 2), spec.get("ny", 5)
    comp = bool(spec.get("compressible", False))
    ground = bool(spec.get("ground", False))
    if comp and ground:
        raise HarnessError("OAS does not support compressible + ground effect (rejected at setup)")
    md, mesh, twist_cp = _gen_mesh("CRM", nx, ny, True, num_twist_cp=3)
    s = _aero_surface("wing", mesh, True, twist_cp, viscous=True, thickness_cp=np.array([0.1, 0.2, 0.3]))
    s.update(_tube_props())
    if spec.get("stiff"):
        s["E"] *= spec["stiff"]
        s["G"] *= spec["stiff"]
    if ground:
        s["groundplane"] = True
    flight = _as_flight()
    flight["Mach_number"] = (0.5, None)
    flight["v"] = (0.5 * 295.4, "m/s")
    flight["rho"] = (0.9, "kg/m**3")
    if ground:
        flight["height_agl"] = (30.0, "m")
    if comp:
        flight["beta"] = (0.0, "deg")
    rot = bool(spec.get("rotational")) and comp
    if rot:
        flight["omega"] = (np.array([2.0, 1.5, -1.0]), "deg/s")
    prob, coupled = _as_problem(spec, [s], flight, compressible=comp, ground=ground, rotational=rot)
    inputs = _as_inputs(flight, mach=(0.3, 0.7)) + [
        Inp("wing.twist_cp", twist_cp, "abs", -2.0, 2.0),
        Inp("wing.thickness_cp", np.array([0.1, 0.2, 0.3]), "rel", -0.3, 0.5),
    ]
    if ground:
        inputs.append(Inp("height_agl", 30.0, "uni", 10.0, 200.0, special=[8000.0]))
    if comp:
        inputs.append(Inp("beta", 0.0, "uni", -4.0, 4.0, special=[0.0]))
    if rot:
        inputs.append(Inp("omega", np.array([2.0, 1.5, -1.0]), "abs", -4.0, 4.0, special=[0.0]))
        inputs.append(Inp("AS_point_0.coupled.aero_states.cg", np.zeros(3), "abs", -1.0, 1.0, special=[0.0]))
    pn = "AS_point_0"
    of = [pn + ".fuelburn", pn + ".L_equals_W", pn + ".wing_perf.failure", pn + ".CM", pn + ".total_perf.moment.M", pn + ".CL", pn + ".CD"]
    return Model(spec, prob, inputs, of, [i.name for i in inputs], [s, md], coupled=coupled)


@entry("Z12")
def z12(spec):
    """Multipoint: n flight points (default 2) sharing one geometry; wingbox or tube by spec['wingbox']."""
    nx, ny = spec.get("nx", 2), spec.get("ny", 5)
    npts = int(spec.get("npts", 2))
    wingbox = bool(spec.get("wingbox", True))
    if wingbox:
        md, mesh, s = _wingbox_surface(spec, nx, max(ny, 5), struct_weight_relief=True, distributed_fuel_weight=True)
        flight = _as_flight(alpha=2.0, tube=False)
        flight["fuel_mass"] = (10000.0, "kg")
    else:
        md, mesh, twist_cp = _gen_mesh("CRM", nx, ny, True, num_twist_cp=3)
        s = _aero_surface("wing", mesh, True, twist_cp, viscous=True, thickness_cp=np.array([0.1, 0.2, 0.3]))
        s.update(_tube_props())
        flight = _as_flight()
    per_point = ["v", "alpha", "Mach_number", "re", "rho", "load_factor", "speed_of_sound"]
    base = {k: flight[k][0] for k in per_point}
    mult = {"v": [1.0, 0.75, 0.9], "alpha": [1.0, 1.6, 1.3], "Mach_number": [1.0, 0.75, 0.9], "re": [1.0, 1.8, 1.4],
            "rho": [1.0, 2.0, 1.5], "load_factor": [1.0, 2.5, 1.5], "speed_of_sound": [1.0, 1.0, 1.0]}
    first = int(spec.get("first", 0))
    for k in per_point:
        flight[k] = (np.array([base[k] * mult[k][first + i] for i in range(npts)]), flight[k][1])
    prob, coupled = _as_problem(spec, [s], flight, n_points=npts, per_point=per_point, fuel_vol=wingbox)
    a0 = flight["alpha"][0]
    inputs = [
        Inp("v", flight["v"][0], "rel", -0.1, 0.1),
        Inp("alpha", a0, "abs", -1.0, 2.0),
        Inp("rho", flight["rho"][0], "rel", -0.2, 0.2),
        Inp("load_factor", flight["load_factor"][0], "rel", -0.2, 0.2),
        Inp("re", flight["re"][0], "rel", -0.3, 0.3),
        Inp("CT", flight["CT"][0], "rel", -0.2, 0.2),
        Inp("W0", flight["W0"][0], "rel", -0.2, 0.2),
    ]
    if wingbox:
        inputs += [
            Inp("fuel_mass", 10000.0, "rel", -0.5, 1.0, special=[0.0]),
            Inp("wing.twist_cp", np.linspace(4.0, 9.0, 3), "abs", -1.5, 1.5),
            Inp("wing.spar_thickness_cp", np.linspace(0.004, 0.01, 3), "rel", -0.2, 0.5),
            Inp("wing.skin_thickness_cp", np.linspace(0.005, 0.026, 3), "rel", -0.2, 0.5),
        ]
    else:
        inputs += [
            Inp("wing.twist_cp", s["twist_cp"], "abs", -2.0, 2.0),
            Inp("wing.thickness_cp", np.array([0.1, 0.2, 0.3]), "rel", -0.3, 0.5),
        ]
    of = []
    for i in range(npts):
        pn = "AS_point_%d" % i
        of += [pn + ".fuelburn", pn + ".CL", pn + ".wing_perf.failure", pn + ".CM", pn + ".total_perf.moment.M"]
    m = Model(spec, prob, inputs, of, [i.name for i in inputs], [s, md], coupled=coupled)
    m.notes["per_point"] = per_point
    m.notes["npts"] = npts
    return m


@entry("Z15")
def z15(spec):
    """Morphing multipoint (documented in the advanced features): every flight point owns its geometry
    (AerostructGeometry(connect_geom_DVs=False) inside the point), so the points have different twist and
    spar thickness - different stiffness behind the same surface name."""
    import openmdao.api as om
    from openaerostruct.integration.aerostruct_groups import AerostructGeometry, AerostructPoint

    nx, ny = spec.get("nx", 2), spec.get("ny", 5)
    md, mesh, twist_cp = _gen_mesh("CRM", nx, ny, True, num_twist_cp=3)
    s = _aero_surface("wing", mesh, True, twist_cp, viscous=True, thickness_cp=np.array([0.1, 0.2, 0.3]))
    s.update(_tube_props())
    flight = _as_flight()
    npts = 2
    per_point = ["v", "alpha", "Mach_number", "re", "rho", "load_factor"]
    mult = {"v": [1.0, 0.7], "alpha": [1.0, 1.6], "Mach_number": [1.0, 0.6], "re": [1.0, 0.5], "rho": [1.0, 2.0], "load_factor": [1.0, 2.0]}
    first = int(spec.get("first", 0))
    n_here = int(spec.get("npts", 2))
    for k in per_point:
        flight[k] = (np.array([flight[k][0] * mult[k][first + i] for i in range(n_here)]), flight[k][1])
    tw = [np.array(twist_cp, dtype=float), np.array(twist_cp, dtype=float) + np.array([1.0, 0.5, -1.0])]
    th = [np.array([0.1, 0.2, 0.3]), np.array([0.08, 0.25, 0.35])]
    prob = om.Problem(reports=False)
    prob.model.add_subsystem("prob_vars", _flight_ivc(om, flight), promotes=["*"])
    mv = om.IndepVarComp()
    mv.add_output("t_over_c_cp", val=np.array([0.15]))
    for i in range(n_here):
        mv.add_output("twist_cp_%d" % i, val=tw[first + i], units="deg")
        mv.add_output("thickness_cp_%d" % i, val=th[first + i], units="m")
    prob.model.add_subsystem("morphing_vars", mv, promotes=["*"])
    coupled = []
    for i in range(n_here):
        pn = "AS_point_%d" % i
        pt = AerostructPoint(surfaces=[s])
        prob.model.add_subsystem(pn, pt)
        pt.add_subsystem("wing", AerostructGeometry(surface=s, connect_geom_DVs=False))
        coupled.append(pn + ".coupled")
        prob.model.connect("t_over_c_cp", pn + ".wing.geometry.t_over_c_cp")
        prob.model.connect("thickness_cp_%d" % i, pn + ".wing.tube_group.thickness_cp")
        prob.model.connect("twist_cp_%d" % i, pn + ".wing.geometry.twist_cp")
        for v in ("alpha", "v", "Mach_number", "re", "rho", "load_factor"):
            prob.model.connect(v, pn + "." + v, src_indices=[i])
        for v in ("CT", "R", "W0", "speed_of_sound", "empty_cg"):
            prob.model.connect(v, pn + "." + v)
        pt.connect("wing.local_stiff_transformed", "coupled.wing.local_stiff_transformed")
        pt.connect("wing.nodes", "coupled.wing.nodes")
        pt.connect("wing.mesh", "coupled.wing.mesh")
        pt.connect("wing.radius", "wing_perf.radius")
        pt.connect("wing.thickness", "wing_perf.thickness")
        pt.connect("wing.nodes", "wing_perf.nodes")
        pt.connect("wing.cg_location", "total_perf.wing_cg_location")
        pt.connect("wing.structural_mass", "total_perf.wing_structural_mass")
        pt.connect("wing.geometry.t_over_c", "wing_perf.t_over_c")
        pt.connect("wing.geometry.t_over_c", "wing.t_over_c")
    _setup(prob, spec)
    inputs = [
        Inp("v", flight["v"][0], "rel", -0.1, 0.1),
        Inp("alpha", flight["alpha"][0], "abs", -1.0, 2.0),
        Inp("rho", flight["rho"][0], "rel", -0.2, 0.2),
        Inp("load_factor", flight["load_factor"][0], "rel", -0.2, 0.2),
        Inp("W0", flight["W0"][0], "rel", -0.2, 0.2),
    ]
    for i in range(n_here):
        inputs.append(Inp("twist_cp_%d" % i, tw[first + i], "abs", -1.5, 1.5))
        inputs.append(Inp("thickness_cp_%d" % i, th[first + i], "rel", -0.2, 0.4))
    of = []
    for i in range(n_here):
        pn = "AS_point_%d" % i
        of += [pn + ".fuelburn", pn + ".CL", pn + ".wing_perf.failure", pn + ".CM"]
    m = Model(spec, prob, inputs, of, [i.name for i in inputs], [s, md], coupled=coupled)
    m.notes["per_point"] = per_point
    m.notes["npts"] = n_here
    return m


# ------------------------------------------------------------------------------------------------
# MPhys wrappers, atmosphere
# ------------------------------------------------------------------------------------------------


@entry("Z13")
def z13(spec):
    """MPhys wrappers wired as ScenarioAerodynamic does, minus the MPI DistributedConverter
    (mpi4py is not installed): AeroMesh -> DemuxSurfaceMesh -> AeroSolverGroup -> MuxSurfaceForces,
    AeroFuncsGroup; two surfaces."""
    import openmdao.api as om
    from mphys.core import MPhysVariables
    from openaerostruct.mphys.aero_mesh import AeroMesh
    from openaerostruct.mphys.demux_surface_mesh import DemuxSurfaceMesh
    from openaerostruct.mphys.mux_surface_forces import MuxSurfaceForces
    from openaerostruct.mphys.aero_solver_group import AeroSolverGroup
    from openaerostruct.mphys.aero_funcs_group import AeroFuncsGroup

    FlowVars = MPhysVariables.Aerodynamics.FlowConditions
    nx, ny = spec.get("nx", 2), spec.get("ny", 5)
    md1, mesh1, _ = _gen_mesh("rect", nx, ny, True, span=10.0, root_chord=1.5)
    md2, mesh2, _ = _gen_mesh("rect", 2, 3, True, span=4.0, root_chord=0.8, offset=np.array([6.0, 0.0, 0.5]))
    wing = _aero_surface("wing", mesh1, True, None, viscous=bool(spec.get("viscous", True)))
    tail = _aero_surface("tail", mesh2, True, None, viscous=False)
    surfaces = [wing, tail]
    compressible = bool(spec.get("compressible", False))
    # The MPhys builder is the documented entry point: options and sub-systems are taken from it (the MPI
    # DistributedConverter inside its coupling group cannot run without mpi4py, so the solver group is added directly
    # with the builder's options). Only non-default options are passed, as a user would.
    from openaerostruct.mphys import AeroBuilder

    class _SerialComm:
        rank = 0
        size = 1

    # spec['write']: the builder's default - a Tecplot panel file and a lift-distribution file per evaluation - onto the
    # simulated disk (sim/simdisk.py); otherwise the writers are switched off
    out_dir = None
    if spec.get("write"):
        from . import simdisk

        out_dir = simdisk.install().mkdir()
    # (the builder's own write_solution=True also adds LiftDistribution, which calls np.trapz - removed from the numpy
    # installed here, so that component cannot run at all in this sandbox, with or without the machinery (it is also why
    # the baseline's MPhys tests fail). The contour writer is therefore wired in alone, the way AeroFuncsGroup does it.)
    bopts = {"write_solution": False}
    if not compressible:
        bopts["compressible"] = False  # the builder's documented default is True
    if spec.get("user_sref"):
        bopts["user_specified_Sref"] = True
    builder = AeroBuilder(surfaces, bopts)
    builder.initialize(_SerialComm())
    compressible = bool(builder.options["compressible"])

    prob = om.Problem(reports=False)
    m = prob.model
    dvs = m.add_subsystem("dvs", om.IndepVarComp(), promotes=["*"])
    dvs.add_output(FlowVars.ANGLE_OF_ATTACK, val=5.0, units="deg")
    dvs.add_output(FlowVars.YAW_ANGLE, val=0.0, units="deg")
    dvs.add_output("rho", val=0.38, units="kg/m**3")
    dvs.add_output(FlowVars.MACH_NUMBER, 0.5)
    dvs.add_output("v", 150.0, units="m/s")
    dvs.add_output(FlowVars.REYNOLDS_NUMBER, 1e6, units="1/m")
    dvs.add_output("cg", val=np.zeros(3), units="m")
    if spec.get("user_sref"):
        dvs.add_output("S_ref_total", val=15.0, units="m**2")
    m.add_subsystem("mesh", builder.get_mesh_coordinate_subsystem())
    pt = m.add_subsystem("aero_point_0", om.Group(), promotes_inputs=[FlowVars.ANGLE_OF_ATTACK, FlowVars.YAW_ANGLE, FlowVars.MACH_NUMBER, FlowVars.REYNOLDS_NUMBER, "rho", "v", "cg"])
    pt.add_subsystem("demuxer", DemuxSurfaceMesh(surfaces=surfaces), promotes=["*"])
    pt.add_subsystem("states", AeroSolverGroup(surfaces=surfaces, compressible=compressible), promotes=["*"])
    pt.add_subsystem("muxer", MuxSurfaceForces(surfaces=surfaces), promotes=["*"])
    pt.add_subsystem("funcs", builder.get_post_coupling_subsystem("aero_point_0"), promotes=["*"])
    if out_dir is not None:
        from openaerostruct.mphys.surface_contours import SurfaceContour

        proms_w = [(sf["name"] + "_sec_forces", sf["name"] + ".sec_forces") for sf in surfaces]
        pt.add_subsystem("contour_writer", SurfaceContour(surfaces=surfaces, base_name="aero_point_0", output_dir=out_dir),
                         promotes_inputs=proms_w + ["*"])
    if spec.get("user_sref"):
        m.connect("S_ref_total", "aero_point_0.S_ref_total")
    m.connect("mesh.%s" % MPhysVariables.Aerodynamics.Surface.Mesh.COORDINATES,
              "aero_point_0.%s" % MPhysVariables.Aerodynamics.Surface.COORDINATES)
    _setup(prob, spec)
    xpts = np.array(prob.get_val("mesh.%s" % MPhysVariables.Aerodynamics.Surface.Mesh.COORDINATES))
    inputs = [
        Inp(FlowVars.ANGLE_OF_ATTACK, 5.0, "uni", 2.0, 8.0),
        Inp(FlowVars.YAW_ANGLE, 0.0, "uni", -3.0, 3.0, special=[0.0]),
        Inp(FlowVars.MACH_NUMBER, 0.5, "uni", 0.2, 0.7),
        Inp(FlowVars.REYNOLDS_NUMBER, 1e6, "rel", -0.3, 0.3),
        Inp("rho", 0.38, "rel", -0.2, 0.2),
        Inp("v", 150.0, "rel", -0.15, 0.15),
        Inp("cg", np.zeros(3), "abs", -1.0, 1.0, special=[0.0]),
        Inp("mesh.%s" % MPhysVariables.Aerodynamics.Surface.Mesh.COORDINATES, xpts, "abs", -0.02, 0.02),
    ] + ([Inp("S_ref_total", 15.0, "rel", -0.2, 0.2)] if spec.get("user_sref") else [])
    pn = "aero_point_0"
    of = [pn + ".CL", pn + ".CD", pn + ".CM", pn + ".wing.CL", pn + ".tail.CD", pn + "." + MPhysVariables.Aerodynamics.Surface.LOADS]
    mdl = Model(spec, prob, inputs, of, [i.name for i in inputs], [wing, tail, md1, md2])
    if out_dir is not None:
        simdisk.attach(prob, out_dir)
        mdl.notes["disk_dir"] = out_dir
    return mdl


@entry("Z14")
def z14(spec):
    """AtmosGroup + stand-alone functionals (Breguet, equilibrium, CG, sum areas) wired by hand."""
    import openmdao.api as om
    from openaerostruct.common.atmos_group import AtmosGroup

    prob = om.Problem(reports=False)
    ivc = om.IndepVarComp()
    ivc.add_output("Mach_number", val=0.8)
    ivc.add_output("altitude", val=10000.0, units="m")
    prob.model.add_subsystem("prob_vars", ivc, promotes=["*"])
    prob.model.add_subsystem("atmos", AtmosGroup(), promotes=["*"])
    _setup(prob, spec)
    inputs = [
        Inp("Mach_number", 0.8, "uni", 0.2, 0.9),
        Inp("altitude", 10000.0, "uni", 100.0, 18000.0, special=[11000.0]),
    ]
    of = ["v", "rho", "re", "speed_of_sound"]
    return Model(spec, prob, inputs, of, [i.name for i in inputs], [])


# ------------------------------------------------------------------------------------------------
# Z0: control model built only from stock OpenMDAO parts (DESIGN.md §3.7)
# ------------------------------------------------------------------------------------------------


@entry("Z0")
def z0(spec):
    import openmdao.api as om

    class ConstJac(om.ExplicitComponent):
        def setup(self):
            self.add_input("x", np.ones(3))
            self.add_output("y", np.ones(3))
            self.declare_partials("y", "x", rows=np.arange(3), cols=np.arange(3), val=1.0)

        def compute(self, inputs, outputs):
            # nonlinear on purpose: declared-constant partial is "wrong" by 2e-3*x; what matters is
            # that it must stay what was declared, whatever check_partials does.
            outputs["y"] = inputs["x"] + 1e-3 * inputs["x"] ** 2

    class CSComp(om.ExplicitComponent):
        def setup(self):
            self.add_input("a", np.ones(3))
            self.add_output("b", np.ones(3))
            self.declare_partials("b", "a", method="cs")

            self.set_check_partial_options("*", method="fd")

        def compute(self, inputs, outputs):
            outputs["b"] = np.sin(inputs["a"]) * inputs["a"] ** 2

    class Mixed(om.ExplicitComponent):
        """cs-approximated partial for one input, analytic for the other (as RotateToWindFrame)."""

        def setup(self):
            self.add_input("g", 1.0)
            self.add_input("b", np.ones(3))
            self.add_output("c", np.ones(3))
            self.declare_partials("c", "g", method="cs")
            self.declare_partials("c", "b", rows=np.arange(3), cols=np.arange(3))
            self.set_check_partial_options("g", method="fd")

        def compute(self, inputs, outputs):
            outputs["c"] = np.sin(inputs["g"]) * inputs["b"]

        def compute_partials(self, inputs, J):
            J["c", "b"] = np.sin(inputs["g"]) * np.ones(3)

    class LinSolve(om.ImplicitComponent):
        """A x = b with an LU that is refreshed in linearize() (the pattern OAS's SolveMatrix uses).
        Stock om.LinearSystemComp is NOT used here: it keeps the LU of the last solve_nonlinear for
        solve_linear, i.e. it has the very staleness defect that was repaired in OAS's FEM (F4), and
        would make the control model fail for a reason that is neither plumbing nor OAS."""

        def setup(self):
            self.add_input("A", np.eye(3))
            self.add_input("b", np.ones(3))
            self.add_output("x", np.ones(3))
            self.declare_partials("x", "A", rows=np.repeat(np.arange(3), 3), cols=np.arange(9))
            self.declare_partials("x", "b", rows=np.arange(3), cols=np.arange(3), val=-1.0)
            self.declare_partials("x", "x")

        def apply_nonlinear(self, inputs, outputs, residuals):
            residuals["x"] = inputs["A"].dot(outputs["x"]) - inputs["b"]

        def solve_nonlinear(self, inputs, outputs):
            outputs["x"] = np.linalg.solve(inputs["A"], inputs["b"])

        def linearize(self, inputs, outputs, J):
            import scipy.linalg as sl

            J["x", "A"] = np.tile(outputs["x"], 3)
            J["x", "x"] = inputs["A"]
            self._lu = sl.lu_factor(inputs["A"])

        def solve_linear(self, d_outputs, d_residuals, mode):
            import scipy.linalg as sl

            if mode == "fwd":
                d_outputs["x"] = sl.lu_solve(self._lu, d_residuals["x"], trans=0)
            else:
                d_residuals["x"] = sl.lu_solve(self._lu, d_outputs["x"], trans=1)

    prob = om.Problem(reports=False)
    m = prob.model
    ivc = om.IndepVarComp()
    ivc.add_output("p", val=np.array([1.0, 2.0, 3.0]))
    ivc.add_output("q", val=2.0)
    ivc.add_output("ycp", val=np.array([1.0, 2.0, 1.5, 3.0]))
    ivc.add_output("A", val=np.array([[4.0, 1.0, 0.0], [1.0, 3.0, 1.0], [0.0, 1.0, 5.0]]))
    m.add_subsystem("ivc", ivc, promotes=["*"])
    m.add_subsystem("e1", om.ExecComp("x = p * q + sin(p)", x=np.ones(3), p=np.ones(3), has_diag_partials=True), promotes=["*"])
    m.add_subsystem("c1", ConstJac(), promotes=["*"])
    m.add_subsystem("c2", CSComp())
    m.connect("y", "c2.a")
    m.add_subsystem("c3", Mixed())
    m.connect("c2.b", "c3.b")
    m.connect("q", "c3.g")
    m.add_subsystem("lin", LinSolve())
    m.connect("A", "lin.A")
    m.connect("c3.c", "lin.b")
    cyc = m.add_subsystem("cyc", om.Group())
    cyc.add_subsystem("d1", om.ExecComp("u = 0.3*w + s", u=np.ones(3), w=np.ones(3), s=np.ones(3), has_diag_partials=True), promotes=["*"])
    cyc.add_subsystem("d2", om.ExecComp("w = 0.5*cos(u) + 0.1*u", u=np.ones(3), w=np.ones(3), has_diag_partials=True), promotes=["*"])
    cyc.nonlinear_solver = om.NonlinearBlockGS(use_aitken=True, maxiter=100, atol=1e-12, rtol=1e-30, err_on_non_converge=True)
    cyc.linear_solver = om.DirectSolver(assemble_jac=True)
    m.connect("lin.x", "cyc.s")
    sp = om.SplineComp(method="bsplines", x_interp_val=np.linspace(0, 1, 5), num_cp=4, interp_options={"order": 4})
    sp.add_spline(y_cp_name="ycp", y_interp_name="yi")
    m.add_subsystem("spl", sp, promotes_inputs=["ycp"])
    m.add_subsystem("fin", om.ExecComp("f = sum(u) + sum(yi*yi)", u=np.ones(3), yi=np.ones((1, 5))))
    m.connect("cyc.u", "fin.u")
    m.connect("spl.yi", "fin.yi")
    _setup(prob, spec)
    inputs = [
        Inp("p", np.array([1.0, 2.0, 3.0]), "rel", -0.3, 0.3),
        Inp("q", 2.0, "uni", 1.0, 3.0),
        Inp("ycp", np.array([1.0, 2.0, 1.5, 3.0]), "rel", -0.3, 0.3),
        Inp("A", np.array([[4.0, 1.0, 0.0], [1.0, 3.0, 1.0], [0.0, 1.0, 5.0]]), "rel", -0.1, 0.1),
    ]
    of = ["fin.f", "cyc.u", "lin.x", "y"]
    return Model(spec, prob, inputs, of, [i.name for i in inputs], [], coupled=["cyc"])


# ------------------------------------------------------------------------------------------------


def build(spec):
    global _EARLY, _SURF_OPTS, _MESH_OPTS
    if spec["zoo"] not in ZOO:
        raise HarnessError("unknown zoo entry %r" % (spec["zoo"],))
    _EARLY = []
    _SURF_OPTS = dict(spec.get("surf_opts") or {})
    _MESH_OPTS = dict(spec.get("mesh_opts") or {})
    try:
        model = ZOO[spec["zoo"]](dict(spec))
        model.early = _EARLY
    finally:
        _EARLY = None
        _SURF_OPTS = {}
        _MESH_OPTS = {}
    return model


MESH_OPT_CHOICES = [{"span_cos_spacing": 1.0}, {"span_cos_spacing": 0.5}, {"chord_cos_spacing": 1.0}, {"span_cos_spacing": 0.0}]


SURF_OPT_CHOICES = [
    {"S_ref_type": "projected"},
    {"with_viscous": False},
    {"k_lam": 0.2},
    {"c_max_t": 0.4},
    {"CL0": 0.1, "CD0": 0.02},
    {"S_ref_type": "projected", "k_lam": 0.15},
    {"ref_axis_pos": 0.4},
    {"Wf_reserve": 0.0},  # no reserve fuel: with fuel_mass = 0 the tanks are exactly empty
    {"fem_origin": 0.35},  # a no-op for tube spars; on a wingbox surface it is a left-over key (accepted, documented as tube-only)
    {"k_lam": 0.0},  # fully turbulent: admissible, and the laminar/transition terms must drop out cleanly
    {"k_lam": 1.0},  # fully laminar: the other end of the documented range, with its own branch in ViscousDrag
]


def variants():
    """Swarm space of specs (zoo entry x discrete options). Mesh size and mode are drawn separately."""
    return [
        {"zoo": "Z1"},
        {"zoo": "Z1", "user_sref": True},
        {"zoo": "Z1", "wing_type": "CRM:alpha_2.75"},
        {"zoo": "Z2"},
        {"zoo": "Z3"},
        {"zoo": "Z3", "right": True},
        {"zoo": "Z3", "tail": True},
        {"zoo": "Z1", "right": True},
        {"zoo": "Z4"},
        {"zoo": "Z4", "rotational": True},
        {"zoo": "Z4", "right": True},
        {"zoo": "Z5"},
        {"zoo": "Z5", "sym": False},
        {"zoo": "Z5", "user_meshes": True},
        {"zoo": "Z5", "tc": True},
        {"zoo": "Z5", "sym": False, "nsec3": True, "tc": True},
        {"zoo": "Z6"},
        {"zoo": "Z6", "exact": True},
        {"zoo": "Z6", "relief": True},
        {"zoo": "Z6", "extras": True},
        {"zoo": "Z6", "extras": True, "full": True},
        {"zoo": "Z6", "radius_cp": True},
        {"zoo": "Z7"},
        {"zoo": "Z7", "exact": True},
        {"zoo": "Z8"},
        {"zoo": "Z8", "wave": True, "relief": True},
        {"zoo": "Z8", "exact": True},
        {"zoo": "Z8", "pm": True},
        {"zoo": "Z8", "geo": True},
        {"zoo": "Z9"},
        {"zoo": "Z9", "rotational": True},
        {"zoo": "Z9", "same_shape": True},
        {"zoo": "Z10"},
        {"zoo": "Z10", "no_reserve": True},
        {"zoo": "Z11", "compressible": True},
        {"zoo": "Z11", "compressible": True, "rotational": True},
        {"zoo": "Z11", "ground": True},
        {"zoo": "Z12", "wingbox": False},
        {"zoo": "Z12", "wingbox": True},
        {"zoo": "Z13"},
        {"zoo": "Z13", "compressible": True},
        {"zoo": "Z13", "user_sref": True},
        {"zoo": "Z13", "write": True},
        {"zoo": "Z13", "write": True, "compressible": True},
        {"zoo": "Z14"},
        {"zoo": "Z15"},
    ]


def user_array_digests(user_dicts):
    """SHA of every ndarray reachable from user-owned dicts (recursing lists/dicts)."""
    import hashlib

    out = {}

    def walk(prefix, o):
        if isinstance(o, np.ndarray):
            out[prefix] = hashlib.sha256(np.ascontiguousarray(o).tobytes() + str(o.dtype).encode() + str(o.shape).encode()).hexdigest()[:16]
        elif isinstance(o, dict):
            for k in sorted(o, key=str):
                walk(prefix + "/" + str(k), o[k])
        elif isinstance(o, (list, tuple)):
            for i, x in enumerate(o):
                walk(prefix + "/%d" % i, x)

    for i, d in enumerate(user_dicts):
        walk("u%d" % i, d)
    return out
