"""Self-tests of the machinery: determinism (same seed => same event-log digest across processes,
worker counts and PYTHONHASHSEED), control model (Z0 + the two OpenMDAO neutralisations), mutants."""
import os
import sys
import json
import time
import subprocess

from . import core
from .core import HarnessError


def _digest_task(arg):
    prop, seed = arg
    from . import runner

    m = runner.machine_for(prop)
    case = m.generate(seed, "quick", {})
    res = m.execute(case, stop_at_first=False, collect=False)
    return {"seed": seed, "digest": res["digest"], "case": core.digest(case), "nviol": len(res["violations"])}


def _digests(props, seeds, workers):
    args = [(p, s) for p in props for s in seeds]
    out = {}
    recycle = any(getattr(__import__("sim.runner", fromlist=["x"]).machine_for(p), "RECYCLE_WORKERS", False) for p in props)
    for (a, st, pl) in core.run_pool(_digest_task, args, workers=workers, task_timeout=600, recycle=recycle):
        if st != "ok":
            raise HarnessError("determinism worker failed: %s %s" % (a, str(pl)[-400:]))
        out["%s:%d" % (a[0], a[1])] = (pl["digest"], pl["case"])
    return out


def determinism(argv):
    """argv: [--emit props n]  (internal: print digests as JSON for the parent to diff)"""
    core.bootstrap()
    if argv and argv[0] == "--emit":
        props = argv[1].split(",")
        n = int(argv[2])
        workers = int(argv[3])
        base = core.base_seed()
        seeds = [core.run_seed(base, 10**5 + i) for i in range(n)]
        print("DIGESTS " + json.dumps(_digests(props, seeds, workers), sort_keys=True))
        return 0
    t0 = time.time()
    props = (os.environ.get("VERIF_DET_PROPS") or "C03,C12,C20").split(",")
    props = [p for p in props if _has_machine(p)]
    n = int(os.environ.get("VERIF_DET_SEEDS", "64"))
    base = core.base_seed()
    seeds = [core.run_seed(base, 10**5 + i) for i in range(n)]
    a = _digests(props, seeds, 16)
    b = _digests(props, seeds, 4)
    # fresh interpreter, other PYTHONHASHSEED
    env = dict(os.environ)
    env["VERIF_HASHSEED"] = "4242"
    env["PYTHONHASHSEED"] = "4242"
    env.pop("VERIF_REEXEC", None)
    p = subprocess.run([sys.executable, os.path.join(core.VERIF, "sim", "cli.py"), "selftest-determinism", "--emit",
                        ",".join(props), str(n), "7"], env=env, capture_output=True, text=True, timeout=3600, cwd=core.VERIF)
    line = [ln for ln in p.stdout.splitlines() if ln.startswith("DIGESTS ")]
    if not line:
        print(p.stdout[-2000:], p.stderr[-2000:])
        raise HarnessError("fresh-interpreter digest run failed")
    c = {k: tuple(v) for k, v in json.loads(line[0][8:]).items()}
    bad = [k for k in a if not (a[k] == b.get(k) == c.get(k))]
    print("selftest-determinism: props=%s seeds=%d x3 executions (16 workers, 4 workers, fresh interpreter PYTHONHASHSEED=4242/7 workers) mismatches=%d wall=%.0fs" % (
        props, n, len(bad), time.time() - t0))
    for k in bad[:10]:
        print("  MISMATCH %s: %s | %s | %s" % (k, a[k], b.get(k), c.get(k)))
    out = {"props": props, "seeds": n, "executions_per_seed": 3, "mismatches": len(bad)}
    core.write_json(os.path.join(core.VERIF, "evidence", "selftest-determinism.json"), out)
    return 0 if not bad else 2


def _has_machine(p):
    from . import runner

    try:
        runner.machine_for(p)
        return True
    except Exception:
        return False


def control(argv):
    """Z0 (stock OpenMDAO parts only) must pass the C03 machine with the neutralisations in force and
    must reproduce both OpenMDAO artefacts with them switched off."""
    core.bootstrap()
    from . import c03_history as c3

    t0 = time.time()
    n = int(os.environ.get("VERIF_CONTROL_RUNS", "120"))
    base = core.base_seed()
    bad = 0
    for i in range(n):
        case = c3.gen_history(core.run_seed(base, 2 * 10**5 + i), zoo_filter=["Z0"])
        r = c3.execute(case, stop_at_first=True, collect=False)
        if r["violations"]:
            bad += 1
            print("  control violation seed=%s %s" % (case["seed"], [(v["cls"], v["where"]) for v in r["violations"]]))
    env = dict(os.environ)
    env["VERIF_NO_OMPATCH"] = "1"
    env.pop("VERIF_REEXEC", None)
    p = subprocess.run([sys.executable, os.path.join(core.VERIF, "sim", "cli.py"), "selftest-control", "--unpatched"],
                       env=env, capture_output=True, text=True, timeout=1800, cwd=core.VERIF) if "--unpatched" not in argv else None
    if "--unpatched" in argv:
        # count artefact classes seen without the patch
        seen = set()
        for i in range(n):
            case = c3.gen_history(core.run_seed(base, 2 * 10**5 + i), zoo_filter=["Z0"])
            r = c3.execute(case, stop_at_first=False, collect=False)
            for v in r["violations"]:
                seen.add((v["cls"], v["where"]))
        print("UNPATCHED " + json.dumps(sorted(seen)))
        return 0
    line = [ln for ln in p.stdout.splitlines() if ln.startswith("UNPATCHED ")]
    seen = json.loads(line[0][10:]) if line else None
    need_const = seen is not None and any("ConstJac" in w for _c, w in seen)
    need_mixed = seen is not None and any("Mixed" in w or "c/" in w for _c, w in seen)
    print("selftest-control: Z0 histories=%d violations_with_patches=%d ; without patches artefacts reproduced: %s (ConstJac leak=%s, Mixed/relevance=%s) wall=%.0fs" % (
        n, bad, seen, need_const, need_mixed, time.time() - t0))
    core.write_json(os.path.join(core.VERIF, "evidence", "selftest-control.json"),
                    {"z0_histories": n, "violations_with_patches": bad, "unpatched_artefact_classes": seen})
    if bad:
        return 2
    if not seen:
        print("  NOTE: the unpatched control no longer reproduces any artefact: the OpenMDAO neutralisations may be obsolete")
        return 2
    return 0


def mutants(argv):
    from . import mutants as mu

    return mu.run(argv)
