"""Simulated disk behind the only file-writing code of the package that an analysis runs: the MPhys solution
writers (openaerostruct/mphys/surface_contours.py, lift_distribution.py), which call the built-in ``open`` once per
evaluation. The seam is the module namespace: a module-level name ``open`` shadows the built-in, so no hook in /repo is
needed and nothing outside those two modules is affected. Output directories are *real*, empty directories below the
run's scratch directory (so that chdir / exists / join on them behave as on any disk); whatever is opened for writing
inside one of them - by absolute or by relative path - is kept in memory by a complete text-file object; everything else
goes to the real ``open``.

Faults (armed per output directory, so one tenant's full disk is not another's):
  enoent  - the directory is gone: open() raises FileNotFoundError
  eacces  - the directory is read-only: open() raises PermissionError
  enospc  - the disk fills up ``after`` characters into the file: the write raises OSError(ENOSPC) and a torn file
            stays behind
No randomness and no clock in here: what happens is decided by the caller's seeded schedule alone.
"""
import builtins
import errno
import io
import os
import re

import numpy as np

KEEP = 12  # completed files remembered per directory (finite-difference excursions write hundreds)

_REAL_OPEN = builtins.open
DISK = None


def _root():
    from . import core

    return os.path.join(core.scratch_dir() or os.getcwd(), "simdisk")


class _Handle(io.StringIO):
    """A text file opened for writing: everything io.StringIO offers (write, writelines, print(file=...), context
    manager, tell ...), with the character budget of a filling disk."""

    def __init__(self, disk, path, budget):
        super().__init__()
        self.disk, self.path, self.budget = disk, path, budget
        self._n = 0
        self._done = False

    def write(self, s):
        if self.budget is not None and self._n + len(s) > self.budget:
            room = max(0, self.budget - self._n)
            super().write(s[:room])
            self._n += room
            if not self._done:
                self._done = True
                self.disk._torn(self)
            raise OSError(errno.ENOSPC, os.strerror(errno.ENOSPC), self.path)
        self._n += len(s)
        return super().write(s)

    def writelines(self, lines):
        for ln in lines:
            self.write(ln)

    def close(self):
        if not self.closed and not self._done:
            self._done = True
            self.disk._completed(self, self.getvalue())
        super().close()


class SimDisk:
    def __init__(self):
        self.dirs = {}  # directory -> list of (name, text) of completed files, oldest first
        self.torn = {}  # directory -> number of torn files left behind
        self.armed = {}  # directory -> {"kind":..., "after":...}
        self.seq = 0  # completed + torn + refused, in order
        self.events = []  # (seq, directory, name, "ok"|"torn"|"enoent"|"eacces")
        self.counts = {"ok": 0, "torn": 0, "enoent": 0, "eacces": 0}
        self._next_dir = 0

    def mkdir(self):
        d = os.path.join(_root(), "d%d" % self._next_dir)
        self._next_dir += 1
        os.makedirs(d, exist_ok=True)
        self.dirs[d] = []
        self.torn[d] = 0
        return d

    def owns(self, path):
        return os.path.dirname(path) in self.dirs

    def arm(self, directory, kind, after=None):
        self.armed[directory] = {"kind": kind, "after": after}

    def disarm(self, directory):
        self.armed.pop(directory, None)

    def _event(self, directory, name, what):
        self.seq += 1
        self.counts[what] += 1
        self.events.append((self.seq, directory, name, what))
        if len(self.events) > 4000:
            del self.events[:2000]

    def open(self, path, mode="r", *a, **kw):
        directory, name = os.path.split(path)
        if "w" not in mode and "a" not in mode and "x" not in mode:
            raise OSError(errno.EINVAL, "simulated disk is write-only", path)
        f = self.armed.get(directory)
        budget = None
        if f is not None:
            if f["kind"] == "enoent":
                self._event(directory, name, "enoent")
                raise FileNotFoundError(errno.ENOENT, os.strerror(errno.ENOENT), path)
            if f["kind"] == "eacces":
                self._event(directory, name, "eacces")
                raise PermissionError(errno.EACCES, os.strerror(errno.EACCES), path)
            if f["kind"] == "enospc":
                budget = int(f["after"])
        return _Handle(self, path, budget)

    def _completed(self, h, text):
        directory, name = os.path.split(h.path)
        lst = self.dirs[directory]
        lst.append((name, text))
        if len(lst) > KEEP:
            del lst[: len(lst) - KEEP]
        self._event(directory, name, "ok")

    def _torn(self, h):
        directory, name = os.path.split(h.path)
        self.torn[directory] += 1
        self._event(directory, name, "torn")


def _open(path, mode="r", *a, **kw):
    if DISK is not None and isinstance(path, (str, os.PathLike)) and any(c in mode for c in "wax"):
        full = os.path.abspath(os.fspath(path))  # a bare file name after a chdir into the directory counts too
        if DISK.owns(full):
            return DISK.open(full, mode, *a, **kw)
    return _REAL_OPEN(path, mode, *a, **kw)


def install():
    """Idempotent: put the dispatching ``open`` into the two writer modules of the tree under test."""
    global DISK
    import openaerostruct.mphys.lift_distribution as ld
    import openaerostruct.mphys.surface_contours as sc

    if DISK is None:
        DISK = SimDisk()
    ld.open = _open
    sc.open = _open
    return DISK


def attach(prob, directory):
    """Remember which files the last *completed* run_model wrote (finite-difference excursions and aborted
    evaluations write files too; the observable of an analysis is what its own evaluation left behind)."""
    disk = DISK
    inner = prob.run_model
    prob._verif_disk = (disk, directory)
    prob._verif_files = None

    def run_model(*a, **kw):
        s0 = disk.seq
        prob._verif_files = None
        out = inner(*a, **kw)
        names = [n for (s, d, n, what) in disk.events if s > s0 and d == directory and what == "ok"]
        have = dict(disk.dirs[directory])
        prob._verif_files = [(n, have[n]) for n in names if n in have]
        return out

    prob.run_model = run_model


_NUM = re.compile(r"^[+-]?(\d+\.?\d*|\.\d+)([eE][+-]?\d+)?$|^[+-]?(nan|inf)$", re.I)


def parse(text):
    """(numbers, skeleton): every numeric token of the data lines, and the remaining text with numbers blanked
    (titles, zone headers, line structure) - the part that has to agree exactly."""
    nums, skel = [], []
    for line in text.split("\n"):
        head = line[:4].upper()
        if head in ("TITL", "VARI", "ZONE"):
            skel.append(line)
            continue
        toks = line.split()
        k = 0
        for t in toks:
            if _NUM.match(t):
                nums.append(float(t))
                k += 1
            else:
                skel.append(t)
        skel.append("#%d" % k)
    return np.array(nums, dtype=float), "\n".join(skel)


def read_files(prob):
    """kind ('panel' / 'lift', numbered if an evaluation wrote several) -> (numbers, skeleton); None if the
    Problem writes no files or its last evaluation did not complete."""
    files = getattr(prob, "_verif_files", None)
    if files is None:
        return None
    out = {}
    seen = {}
    for name, text in files:
        kind = "panel" if name.endswith("_panel.plt") else ("lift" if name.endswith("_lift.dat") else name)
        i = seen.get(kind, 0)
        seen[kind] = i + 1
        out["%s#%d" % (kind, i)] = parse(text)
    return out


def compare_files(live, ref):
    """List of (key, err, scale). The writers print with %f and %E: six digits after the point. Two correct
    evaluations whose doubles differ by round-off may print a last digit apart, never more:
    allowed = 2e-6 * max(1, |ref|) element by element; the skeleton (headers, zone sizes, line structure) and the set
    of files have to agree exactly."""
    bad = []
    if (live is None) != (ref is None):
        return [("files_present", float("inf"), 0.0)]
    if live is None:
        return bad
    if sorted(live) != sorted(ref):
        return [("file_set:%s|%s" % (",".join(sorted(live)), ",".join(sorted(ref))), float("inf"), 0.0)]
    for k in sorted(ref):
        (a, sa), (b, sb) = live[k], ref[k]
        if sa != sb or a.shape != b.shape:
            bad.append((k + ":structure", float("inf"), 0.0))
            continue
        fa, fb = np.isfinite(a), np.isfinite(b)
        if not np.array_equal(fa, fb):
            bad.append((k + ":nonfinite", float("inf"), 0.0))
            continue
        if a.size == 0:
            continue
        d = np.abs(a[fa] - b[fb])
        allow = 2e-6 * np.maximum(1.0, np.abs(b[fb]))
        if np.any(d > allow):
            i = int(np.argmax(d / allow))
            bad.append((k, float(d[i]), float(np.abs(b[fb][i]))))
    return bad


def as_arrays(files):
    """read_files() result as a flat name -> ndarray dict (skeleton as its CRC), for observation lists."""
    import zlib

    out = {}
    for k, (a, sk) in (files or {}).items():
        out[k] = a
        out[k + ":skeleton"] = np.array([float(zlib.crc32(sk.encode()) % 9973)])
    return out


def close_enough(a, b):
    a = np.asarray(a, dtype=float).ravel()
    b = np.asarray(b, dtype=float).ravel()
    if a.shape != b.shape:
        return False, float("inf"), 0.0
    fa, fb = np.isfinite(a), np.isfinite(b)
    if not np.array_equal(fa, fb):
        return False, float("inf"), 0.0
    if not fa.any():
        return True, 0.0, 0.0
    d = np.abs(a[fa] - b[fb])
    allow = 2e-6 * np.maximum(1.0, np.abs(b[fb]))
    i = int(np.argmax(d / allow))
    return bool(np.all(d <= allow)), float(d[i]), float(np.abs(b[fb][i]))
