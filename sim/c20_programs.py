"""C20 - invalid set-ups are rejected loudly; valid ones give finite, repeatable, isolated results;
user data is never modified.

The simulated world is a *program*: 2-4 tenants (independent Problems, possibly sharing user-owned
mesh arrays / surface dicts, possibly exact twins), each with its own op list, merged by a seeded
scheduler into one sequential script, with malformed set-ups, aborted runs and garbage collection
at seeded moments. Oracle: every observation of every tenant equals what the same tenant's op list
yields when executed alone in a pristine forked interpreter; a seeded share of programs is executed
again in fresh interpreters under other PYTHONHASHSEED / BLAS thread count / cwd.
"""
import gc
import os
import sys
import json
import subprocess
import tempfile
import warnings
import numpy as np

from . import core, zoo, obs, faults, simdisk
from .core import HarnessError
from .c03_history import _quiet

PROP = "C20"
TASK_TIMEOUT = 600
RECYCLE_WORKERS = True  # every program starts in a fork of the pristine parent (no OAS object ever built)

RT_ISOLATED = 1e-12  # interleaved vs isolated, same interpreter image
RT_ENV = 1e-10  # across interpreters / hash seeds / BLAS thread counts

TENANT_VARIANTS = [
    {"zoo": "Z1"}, {"zoo": "Z2"}, {"zoo": "Z3"}, {"zoo": "Z3", "right": True}, {"zoo": "Z4"}, {"zoo": "Z5"},
    {"zoo": "Z6"}, {"zoo": "Z6", "relief": True}, {"zoo": "Z6", "exact": True}, {"zoo": "Z7"}, {"zoo": "Z7", "exact": True},
    {"zoo": "Z8"}, {"zoo": "Z8", "wave": True, "relief": True}, {"zoo": "Z8", "exact": True}, {"zoo": "Z5", "sym": False},
    {"zoo": "Z9"}, {"zoo": "Z10"}, {"zoo": "Z10", "no_reserve": True}, {"zoo": "Z11", "compressible": True}, {"zoo": "Z11", "ground": True},
    {"zoo": "Z12", "wingbox": False}, {"zoo": "Z13"}, {"zoo": "Z14"}, {"zoo": "Z15"}, {"zoo": "Z3", "tail": True},
    {"zoo": "Z5", "user_meshes": True}, {"zoo": "Z13", "compressible": True}, {"zoo": "Z13", "user_sref": True},
    {"zoo": "Z8", "pm": True}, {"zoo": "Z9", "rotational": True}, {"zoo": "Z1", "user_sref": True},
    {"zoo": "Z1", "right": True}, {"zoo": "Z4", "rotational": True}, {"zoo": "Z4", "right": True}, {"zoo": "Z5", "tc": True},
    {"zoo": "Z5", "sym": False, "nsec3": True, "tc": True}, {"zoo": "Z8", "geo": True},
    {"zoo": "Z11", "compressible": True, "rotational": True}, {"zoo": "Z6", "extras": True, "full": True},
    {"zoo": "Z13", "write": True}, {"zoo": "Z13", "write": True}, {"zoo": "Z13", "write": True, "compressible": True},
]

# ------------------------------------------------------------------------------------------------
# error-path table: each entry attempts one malformed set-up. Returns a dict describing how far it got.
# ------------------------------------------------------------------------------------------------


def _stage_runner(build):
    """build() must construct user dicts + Problem and return prob (not yet set up) or raise."""
    info = {"stage": None, "exc": None, "msg": None, "warnings": [], "produced_numbers": False}
    # record=True swaps the display hook for a recorder and (via the filters-mutated counter) forgets the
    # once-per-location registries; the filters themselves are left as the process has them, so a filter installed
    # process-wide by library code earlier in this program shows up here as a missing warning
    with warnings.catch_warnings(record=True) as wlist:
        try:
            info["stage"] = "build"
            prob = build()
            if prob is not None:
                info["stage"] = "setup"
                with _quiet():
                    prob.setup()
                info["stage"] = "final_setup"
                with _quiet():
                    prob.final_setup()
                info["stage"] = "run_model"
                with _quiet():
                    prob.run_model()
                info["stage"] = "completed"
                info["produced_numbers"] = True
            else:
                info["stage"] = "completed-no-problem"
        except Exception as e:  # noqa
            info["exc"] = type(e).__name__
            info["msg"] = str(e)[:200]
    # any warning category counts: the property asks for "a warning", not for a particular class
    info["warnings"] = sorted({"%s:%s" % (w.category.__name__, str(w.message)[:80]) for w in wlist})
    return info


def _bad_ground_no_symmetry():
    import openmdao.api as om
    from openaerostruct.geometry.utils import generate_mesh
    from openaerostruct.geometry.geometry_group import Geometry
    from openaerostruct.aerodynamics.aero_groups import AeroPoint

    def build():
        mesh = generate_mesh({"num_y": 5, "num_x": 2, "wing_type": "rect", "symmetry": False})
        s = zoo._aero_surface("wing", mesh, False, np.zeros(2), groundplane=True)
        prob = om.Problem(reports=False)
        ivc = om.IndepVarComp()
        for n, v, u in (("v", 50.0, "m/s"), ("alpha", 5.0, "deg"), ("Mach_number", 0.2, None), ("re", 1e6, "1/m"),
                        ("rho", 1.2, "kg/m**3"), ("cg", np.zeros(3), "m"), ("height_agl", 10.0, "m")):
            ivc.add_output(n, val=v, units=u)
        prob.model.add_subsystem("prob_vars", ivc, promotes=["*"])
        prob.model.add_subsystem("wing", Geometry(surface=s))
        prob.model.add_subsystem("aero_point_0", AeroPoint(surfaces=[s]),
                                 promotes_inputs=["v", "alpha", "Mach_number", "re", "rho", "cg", "height_agl"])
        prob.model.connect("wing.mesh", "aero_point_0.wing.def_mesh")
        prob.model.connect("wing.mesh", "aero_point_0.aero_states.wing_def_mesh")
        prob.model.connect("wing.t_over_c", "aero_point_0.wing_perf.t_over_c")
        return prob

    return _stage_runner(build)


def _bad_ground_no_symmetry_aerostruct():
    def build():
        spec = {"zoo": "Z9", "ny": 3, "nx": 2}
        import openaerostruct.integration.aerostruct_groups  # noqa: F401

        orig = zoo._tube_props

        def tube_with_ground(**kw):
            d = orig(**kw)
            d["groundplane"] = True
            return d

        zoo._tube_props = tube_with_ground
        try:
            # Z9 = two full-span (symmetry False) tube surfaces; with groundplane=True this must be rejected.
            # The zoo builder is stopped just before prob.setup() so that _stage_runner sees where it fails.
            return _build_no_setup(spec)
        finally:
            zoo._tube_props = orig

    return _stage_runner(build)


def _build_no_setup(spec):
    """Z9 with ground effect switched on for both (non-symmetric) surfaces, returned before setup()."""
    import openmdao.api as om

    holder = {}
    orig_setup = zoo._setup

    def capture(prob, spec_, driver=None):
        holder["prob"] = prob
        raise _Captured()

    zoo._setup = capture
    try:
        flight_orig = zoo._as_flight

        def flight(*a, **k):
            f = flight_orig(*a, **k)
            f["height_agl"] = (30.0, "m")
            return f

        zoo._as_flight = flight
        try:
            zoo.ZOO["Z9"](dict(spec))
        except _Captured:
            pass
        finally:
            zoo._as_flight = flight_orig
    finally:
        zoo._setup = orig_setup
    return holder.get("prob")


class _Captured(Exception):
    pass


def _bad_ground_second_surface_not_symmetric():
    import openmdao.api as om
    from openaerostruct.geometry.utils import generate_mesh
    from openaerostruct.geometry.geometry_group import Geometry
    from openaerostruct.aerodynamics.aero_groups import AeroPoint

    def build():
        mesh1 = generate_mesh({"num_y": 5, "num_x": 2, "wing_type": "rect", "symmetry": True})
        mesh2 = generate_mesh({"num_y": 5, "num_x": 2, "wing_type": "rect", "symmetry": False, "span": 4.0,
                               "root_chord": 0.8, "offset": np.array([6.0, 0.0, 0.5])})
        wing = zoo._aero_surface("wing", mesh1, True, np.zeros(2), groundplane=True)
        tail = zoo._aero_surface("tail", mesh2, False, np.zeros(2), groundplane=True)
        prob = om.Problem(reports=False)
        ivc = om.IndepVarComp()
        for n, v, u in (("v", 50.0, "m/s"), ("alpha", 5.0, "deg"), ("Mach_number", 0.2, None), ("re", 1e6, "1/m"),
                        ("rho", 1.2, "kg/m**3"), ("cg", np.zeros(3), "m"), ("height_agl", 10.0, "m")):
            ivc.add_output(n, val=v, units=u)
        prob.model.add_subsystem("prob_vars", ivc, promotes=["*"])
        for s in (wing, tail):
            prob.model.add_subsystem(s["name"], Geometry(surface=s))
        prob.model.add_subsystem("aero_point_0", AeroPoint(surfaces=[wing, tail]),
                                 promotes_inputs=["v", "alpha", "Mach_number", "re", "rho", "cg", "height_agl"])
        for s in (wing, tail):
            n = s["name"]
            prob.model.connect(n + ".mesh", "aero_point_0." + n + ".def_mesh")
            prob.model.connect(n + ".mesh", "aero_point_0.aero_states." + n + "_def_mesh")
            prob.model.connect(n + ".t_over_c", "aero_point_0." + n + "_perf.t_over_c")
        return prob

    return _stage_runner(build)


def _degenerate_coplanar_tail_alpha0():
    """Admissible-looking but singular geometry: a flat wing and a coplanar tail whose panel is centred on a wing
    station, at alpha = 0 - the wing's trailing legs run exactly through the tail's collocation point (0/0 in the
    vortex kernel). The unchanged tree fails loudly (ValueError from the LU factorisation). What must never happen
    is a normal return with non-finite numbers."""
    import openmdao.api as om
    from openaerostruct.geometry.utils import generate_mesh
    from openaerostruct.geometry.geometry_group import Geometry
    from openaerostruct.aerodynamics.aero_groups import AeroPoint

    info = {"stage": "build", "exc": None, "msg": None, "warnings": [], "produced_numbers": False, "finite": None}
    try:
        mesh1 = generate_mesh({"num_y": 7, "num_x": 2, "wing_type": "rect", "symmetry": True, "span": 10.0, "root_chord": 1.0})
        mesh2 = generate_mesh({"num_y": 3, "num_x": 2, "wing_type": "rect", "symmetry": True, "span": 20.0 / 3.0,
                               "root_chord": 0.5, "offset": np.array([5.0, 0.0, 0.0])})
        wing = zoo._aero_surface("wing", mesh1, True, None, viscous=False)
        tail = zoo._aero_surface("tail", mesh2, True, None, viscous=False)
        prob = om.Problem(reports=False)
        ivc = om.IndepVarComp()
        for n, v, u in (("v", 50.0, "m/s"), ("alpha", 0.0, "deg"), ("Mach_number", 0.2, None), ("re", 1e6, "1/m"),
                        ("rho", 1.2, "kg/m**3"), ("cg", np.zeros(3), "m")):
            ivc.add_output(n, val=v, units=u)
        prob.model.add_subsystem("prob_vars", ivc, promotes=["*"])
        for s in (wing, tail):
            prob.model.add_subsystem(s["name"], Geometry(surface=s))
        prob.model.add_subsystem("aero_point_0", AeroPoint(surfaces=[wing, tail]),
                                 promotes_inputs=["v", "alpha", "Mach_number", "re", "rho", "cg"])
        for s in (wing, tail):
            n = s["name"]
            prob.model.connect(n + ".mesh", "aero_point_0." + n + ".def_mesh")
            prob.model.connect(n + ".mesh", "aero_point_0.aero_states." + n + "_def_mesh")
            prob.model.connect(n + ".t_over_c", "aero_point_0." + n + "_perf.t_over_c")
        info["stage"] = "setup"
        with _quiet():
            prob.setup()
            info["stage"] = "run_model"
            prob.run_model()
        info["stage"] = "completed"
        info["produced_numbers"] = True
        info["finite"] = obs.all_finite(obs.read_outputs(prob)) is None
    except Exception as e:  # noqa
        info["exc"] = type(e).__name__
        info["msg"] = str(e)[:200]
    return info


def _alias_generate_mesh():
    """Two calls of the mesh generator with the same dictionary must hand out independent arrays: editing one mesh in
    place (adding dihedral or camber by hand is a documented workflow) must not change the other, nor what a third call
    returns."""
    from openaerostruct.geometry.utils import generate_mesh

    info = {"stage": "build", "exc": None, "msg": None, "warnings": [], "produced_numbers": False, "alias": None}
    try:
        problems = []
        for md in ({"num_y": 7, "num_x": 2, "wing_type": "rect", "symmetry": True, "span": 10.0, "root_chord": 1.0},
                   {"num_y": 5, "num_x": 3, "wing_type": "rect", "symmetry": False},
                   {"num_y": 5, "num_x": 2, "wing_type": "CRM", "symmetry": True, "num_twist_cp": 3}):
            a = generate_mesh(dict(md))
            b = generate_mesh(dict(md))
            a0, b0 = (a[0], b[0]) if isinstance(a, tuple) else (a, b)
            ref = b0.copy()
            if np.shares_memory(a0, b0):
                problems.append("%s: two calls share memory" % md["wing_type"])
            a0[:, :, 2] += 0.123
            if not np.array_equal(b0, ref):
                problems.append("%s: editing one mesh changed the other" % md["wing_type"])
            c = generate_mesh(dict(md))
            c0 = c[0] if isinstance(c, tuple) else c
            if not np.array_equal(c0, ref):
                problems.append("%s: a later call returns the edited mesh" % md["wing_type"])
            if isinstance(a, tuple) and np.shares_memory(a[1], b[1]):
                problems.append("%s: twist arrays share memory" % md["wing_type"])
        # Every array a public mesh generator hands back is the caller's: a user who rescales or shifts *all* of what
        # one call returned (eta to dimensional stations, twist relative to the root, the mesh into another unit) must
        # not change what the next, independent call returns - also for the low-level generators and for the CRM tables
        # behind them (seeded change S77: the tables memoised, `eta`/`twist` handed out as views of the shared table).
        from openaerostruct.geometry.utils import gen_crm_mesh, gen_rect_mesh

        def _arrays(ret):
            return [x for x in (ret if isinstance(ret, tuple) else (ret,)) if isinstance(x, np.ndarray)]

        calls = [
            ("gen_crm_mesh(CRM)", lambda: gen_crm_mesh(2, 5, wing_type="CRM")),
            ("gen_crm_mesh(CRM:jig)", lambda: gen_crm_mesh(3, 7, 0.5, 0.0, "CRM:jig")),
            ("gen_crm_mesh(CRM:alpha_2.75)", lambda: gen_crm_mesh(2, 5, 0.0, 0.0, "CRM:alpha_2.75")),
            ("gen_crm_mesh(uCRM_based)", lambda: gen_crm_mesh(2, 5, 0.0, 0.0, "uCRM_based")),
            ("gen_rect_mesh", lambda: gen_rect_mesh(3, 5, 10.0, 1.0, 0.0, 0.0)),
            ("generate_mesh(CRM:jig)", lambda: generate_mesh({"num_y": 5, "num_x": 2, "wing_type": "CRM:jig", "symmetry": True, "num_twist_cp": 3})),
            ("generate_mesh(CRM:alpha_2.75)", lambda: generate_mesh({"num_y": 7, "num_x": 2, "wing_type": "CRM:alpha_2.75", "symmetry": False, "num_twist_cp": 4})),
            ("generate_mesh(uCRM_based)", lambda: generate_mesh({"num_y": 5, "num_x": 2, "wing_type": "uCRM_based", "symmetry": True, "num_twist_cp": 3})),
        ]
        for label, call in calls:
            first = _arrays(call())
            pristine = [a.copy() for a in first]
            for a in first:
                if a.flags.writeable:  # a read-only return value would be a legitimate defence, not a violation
                    a *= 1.5
                    a -= 0.25
            second = _arrays(call())
            if len(second) != len(pristine):
                problems.append("%s: a later call returns %d arrays instead of %d" % (label, len(second), len(pristine)))
                continue
            for i, (p0, s1) in enumerate(zip(pristine, second)):
                if p0.shape != s1.shape or not np.array_equal(p0, s1):
                    problems.append("%s: after the caller edited what the first call returned, return value %d of the next call differs" % (label, i))
                    break
            if any(np.shares_memory(a, b) for a in first for b in second):
                problems.append("%s: two calls hand out arrays that share memory" % label)
        info["alias"] = problems
        info["stage"] = "completed-no-problem"
    except Exception as e:  # noqa
        info["exc"] = type(e).__name__
        info["msg"] = str(e)[:200]
    return info


def _bad_multisection_after_valid(field, too_long=False):
    """The same malformed multi-section dict, but offered after a well-formed one has been processed in this process."""
    from openaerostruct.geometry.geometry_group import build_sections

    good = {
        "name": "surface", "is_multi_section": True, "num_sections": 2, "sec_name": ["sec0", "sec1"],
        "symmetry": True, "S_ref_type": "wetted", "root_section": 1, "taper": [1.0, 1.0], "span": [1.0, 1.0],
        "sweep": [0.0, 0.0], "chord_cp": [np.ones(2), np.ones(2)], "twist_cp": [np.zeros(2), np.zeros(2)],
        "root_chord": 1.0, "meshes": "gen-meshes", "nx": 2, "ny": [5, 5], "CL0": 0.0, "CD0": 0.015,
        "k_lam": 0.05, "c_max_t": 0.303, "with_viscous": False, "with_wave": False, "groundplane": False,
    }
    build_sections(good)
    return _bad_multisection(field, too_long)


def _scenario_reuse_dict_new_mesh():
    """A span / refinement study: the user keeps one surface dict, replaces dict['mesh'] and builds a new Problem.
    That Problem must equal one built from a brand-new dict with the same content."""
    import openmdao.api as om
    from openaerostruct.geometry.utils import generate_mesh
    from openaerostruct.geometry.geometry_group import Geometry
    from openaerostruct.aerodynamics.aero_groups import AeroPoint

    info = {"stage": "build", "exc": None, "msg": None, "warnings": [], "produced_numbers": False, "mismatch": None}

    def surf(mesh):
        return zoo._aero_surface("wing", mesh, True, np.zeros(2), viscous=True)

    def analyse(s):
        prob = om.Problem(reports=False)
        ivc = om.IndepVarComp()
        for n, v, u in (("v", 50.0, "m/s"), ("alpha", 4.0, "deg"), ("Mach_number", 0.2, None), ("re", 1e6, "1/m"),
                        ("rho", 1.2, "kg/m**3"), ("cg", np.zeros(3), "m")):
            ivc.add_output(n, val=v, units=u)
        prob.model.add_subsystem("prob_vars", ivc, promotes=["*"])
        prob.model.add_subsystem("wing", Geometry(surface=s))
        prob.model.add_subsystem("aero_point_0", AeroPoint(surfaces=[s]), promotes_inputs=["v", "alpha", "Mach_number", "re", "rho", "cg"])
        prob.model.connect("wing.mesh", "aero_point_0.wing.def_mesh")
        prob.model.connect("wing.mesh", "aero_point_0.aero_states.wing_def_mesh")
        prob.model.connect("wing.t_over_c", "aero_point_0.wing_perf.t_over_c")
        with _quiet():
            prob.setup()
            prob.run_model()
        return obs.read_outputs(prob)

    try:
        m1 = generate_mesh({"num_y": 7, "num_x": 2, "wing_type": "rect", "symmetry": True, "span": 10.0, "root_chord": 1.0})
        m2 = generate_mesh({"num_y": 7, "num_x": 2, "wing_type": "rect", "symmetry": True, "span": 14.0, "root_chord": 1.0})
        d = surf(m1)
        analyse(d)
        d["mesh"] = m2  # the user's edit between two studies
        reused = analyse(d)
        fresh = analyse(surf(m2.copy()))
        worst = None
        for k, v in fresh.items():
            ok, err, scale = obs.cmp_arrays(reused.get(k, np.array([np.nan])), v, RT_ISOLATED, 0.0)
            if not ok and (worst is None or err > worst[1]):
                worst = (k, err, scale)
        info["mismatch"] = worst
        info["stage"] = "completed"
    except Exception as e:  # noqa
        info["exc"] = type(e).__name__
        info["msg"] = str(e)[:200]
    return info


def _scenario_zero_lift_then_ordinary():
    """A zero-lift evaluation (untwisted flat wing at alpha = 0: CL = 0, range-type functionals divide by it) is not
    judged itself - it may give inf/nan or raise. What is judged: it must leave the process as it found it, i.e. an
    ordinary evaluation afterwards (including a fully turbulent surface, whose viscous drag does a discarded 0-division)
    works and equals what a pristine process gives, and numpy's error state / print options are untouched."""
    info = {"stage": "build", "exc": None, "msg": None, "warnings": [], "produced_numbers": False, "mismatch": None}
    try:
        g0 = _global_state()
        try:
            m = zoo.build({"zoo": "Z9", "ny": 3, "nx": 2})
            m.set_point({"alpha": np.array([0.0]), "wing.twist_cp": np.zeros(3), "tail.twist_cp": np.zeros(1), "beta": np.array([0.0])})
            with _quiet():
                m.prob.run_model()
        except Exception:  # noqa - any loud failure of the degenerate evaluation is acceptable
            pass
        spec = {"zoo": "Z1", "ny": 5, "nx": 2, "surf_opts": {"k_lam": 0.0}}
        try:
            m2 = zoo.build(spec)
            with _quiet():
                m2.prob.run_model()
            after = obs.read_outputs(m2.prob)
        except Exception as e:  # noqa
            info["exc"] = type(e).__name__
            info["msg"] = "ordinary evaluation after a zero-lift one raised: %s" % (str(e)[:150],)
            return info
        g1 = _global_state()
        changed = [k for k in g0 if g0[k] != g1[k]]
        if changed:
            info["mismatch"] = ("process-wide state changed: %s" % ", ".join(changed), float("inf"), 0.0)
        else:
            fresh = core.in_child(_plain_outputs, spec)
            for k, v in fresh.items():
                ok, err, scale = obs.cmp_arrays(after.get(k, np.array([np.nan])), v, RT_ISOLATED, 0.0)
                if not ok:
                    info["mismatch"] = (k, err, scale)
                    break
        info["stage"] = "completed"
    except Exception as e:  # noqa
        info["exc"] = type(e).__name__
        info["msg"] = str(e)[:200]
    return info


def _plain_outputs(spec):
    m = zoo.build(spec)
    with _quiet():
        m.prob.run_model()
    return obs.read_outputs(m.prob)


def _bad_even_num_y_crm():
    from openaerostruct.geometry.utils import generate_mesh

    def build():
        generate_mesh({"num_y": 8, "num_x": 3, "wing_type": "CRM", "symmetry": False, "num_twist_cp": 3})
        return None

    return _stage_runner(build)


def _bad_even_num_y():
    from openaerostruct.geometry.utils import generate_mesh

    def build():
        generate_mesh({"num_y": 6, "num_x": 2, "wing_type": "rect", "symmetry": True})
        return None

    return _stage_runner(build)


def _bad_wing_type():
    from openaerostruct.geometry.utils import generate_mesh

    def build():
        generate_mesh({"num_y": 5, "num_x": 2, "wing_type": "delta", "symmetry": True})
        return None

    return _stage_runner(build)


def _struct_problem(surface_mod, aerostruct=False):
    import openmdao.api as om
    from openaerostruct.structures.struct_groups import SpatialBeamAlone
    from openaerostruct.integration.aerostruct_groups import AerostructGeometry

    def build():
        md, mesh, twist_cp = zoo._gen_mesh("CRM", 2, 5, True, num_twist_cp=3)
        s = {"name": "wing", "symmetry": True, "mesh": mesh, "t_over_c_cp": np.array([0.15]), "thickness_cp": np.array([0.05, 0.1, 0.15])}
        s.update(zoo._tube_props())
        surface_mod(s)
        prob = om.Problem(reports=False)
        ivc = om.IndepVarComp()
        ivc.add_output("loads", val=zoo._loads(mesh.shape[1]), units="N")
        prob.model.add_subsystem("prob_vars", ivc, promotes=["*"])
        if aerostruct:
            prob.model.add_subsystem("wing", AerostructGeometry(surface=s))
        else:
            prob.model.add_subsystem("wing", SpatialBeamAlone(surface=s))
            prob.model.connect("loads", "wing.loads")
        return prob

    return build


def _bad_fem_model_type_struct():
    return _stage_runner(_struct_problem(lambda s: s.update({"fem_model_type": "shell"})))


def _bad_fem_model_type_aerostruct():
    return _stage_runner(_struct_problem(lambda s: s.update({"fem_model_type": "shell"}), aerostruct=True))


def _bad_fem_model_type_below_geometry(which):
    """The unknown structural model type handed to a group *below* the geometry groups (a flight point that owns its
    geometry, as in the morphing multipoint set-up, or the functionals group on its own): each has its own guard."""
    import openmdao.api as om

    def build():
        md, mesh, twist_cp = zoo._gen_mesh("CRM", 2, 5, True, num_twist_cp=3)
        s = {"name": "wing", "symmetry": True, "S_ref_type": "wetted", "mesh": mesh, "CL0": 0.0, "CD0": 0.015, "k_lam": 0.05,
             "t_over_c_cp": np.array([0.15]), "c_max_t": 0.303, "with_viscous": True, "with_wave": False,
             "twist_cp": np.array(twist_cp, dtype=float), "thickness_cp": np.array([0.1, 0.2, 0.3])}
        s.update(zoo._tube_props())
        s["fem_model_type"] = "shell"
        prob = om.Problem(reports=False)
        if which == "point":
            from openaerostruct.integration.aerostruct_groups import AerostructPoint

            prob.model.add_subsystem("AS_point_0", AerostructPoint(surfaces=[s]))
        else:
            from openaerostruct.structures.spatial_beam_functionals import SpatialBeamFunctionals

            prob.model.add_subsystem("funcs", SpatialBeamFunctionals(surface=s))
        return prob

    return _stage_runner(build)


def _bad_one_wingbox_thickness(which, aerostruct):
    def mod(s):
        s.pop("thickness_cp", None)
        s.update(zoo._wingbox_props(3))
        s["t_over_c_cp"] = np.array([0.08, 0.10, 0.08])
        s.pop(which)

    return _stage_runner(_struct_problem(mod, aerostruct=aerostruct))


def _bad_multisection(field, too_long=False, with_bpanels=False):
    from openaerostruct.geometry.geometry_group import build_sections

    def build():
        surface = {
            "name": "surface", "is_multi_section": True, "num_sections": 2, "sec_name": ["sec0", "sec1"],
            "symmetry": True, "S_ref_type": "wetted", "root_section": 1, "taper": [1.0, 1.0], "span": [1.0, 1.0],
            "sweep": [0.0, 0.0], "chord_cp": [np.ones(2), np.ones(2)], "twist_cp": [np.zeros(2), np.zeros(2)],
            "root_chord": 1.0, "meshes": "gen-meshes", "nx": 2, "ny": [5, 5], "CL0": 0.0, "CD0": 0.015,
            "k_lam": 0.05, "c_max_t": 0.303, "with_viscous": False, "with_wave": False, "groundplane": False,
        }
        if with_bpanels:
            surface["bpanels"] = np.array([4, 4])  # the mesh generator prefers bpanels (an array) over ny when both are given
        if field == "meshes":
            surface["meshes"] = [np.zeros((2, 3, 3))]
        elif too_long:
            surface[field] = list(surface[field]) + [list(surface[field])[-1]]
        else:
            surface[field] = list(surface[field])[:1]
        sections = build_sections(surface)
        if too_long:
            # an over-long list does not crash anything downstream by itself: carry on as a user would, so that a
            # silently accepted dict ends in numbers
            return _multisection_problem(surface, sections)
        return None

    return _stage_runner(build)


def _multisection_problem(surface, section_surfaces):
    import openmdao.api as om
    from openaerostruct.geometry.geometry_group import MultiSecGeometry
    from openaerostruct.geometry.geometry_unification import unify_mesh
    from openaerostruct.aerodynamics.aero_groups import AeroPoint

    prob = om.Problem(reports=False)
    ivc = om.IndepVarComp()
    for n, v, u in (("v", 1.0, "m/s"), ("alpha", 5.0, "deg"), ("Mach_number", 0.3, None), ("re", 1e5, "1/m"),
                    ("rho", 0.38, "kg/m**3"), ("cg", np.zeros(3), "m")):
        ivc.add_output(n, val=v, units=u)
    prob.model.add_subsystem("prob_vars", ivc, promotes=["*"])
    surface["mesh"] = unify_mesh(section_surfaces)
    prob.model.add_subsystem("surface", MultiSecGeometry(surface=surface))
    prob.model.add_subsystem("aero_point_0", AeroPoint(surfaces=[surface]), promotes_inputs=["v", "alpha", "Mach_number", "re", "rho", "cg"])
    uni = "surface.surface_unification.surface_uni_mesh"
    prob.model.connect(uni, "aero_point_0.surface.def_mesh")
    prob.model.connect(uni, "aero_point_0.aero_states.surface_def_mesh")
    return prob


def _bad_full_mesh(kind):
    from openaerostruct.geometry.utils import getFullMesh

    def build():
        m = np.zeros((2, 3, 3))
        if kind == "none":
            getFullMesh()
        else:
            getFullMesh(left_mesh=m, right_mesh=m)
        return None

    return _stage_runner(build)


def _warn_mesh_key():
    from openaerostruct.geometry.utils import generate_mesh

    def build():
        generate_mesh({"num_y": 5, "num_x": 2, "wing_type": "rect", "symmetry": True, "num_z": 3})
        return None

    return _stage_runner(build)


def _warn_surface_key():
    import openmdao.api as om
    from openaerostruct.geometry.geometry_group import Geometry

    def build():
        md, mesh, _ = zoo._gen_mesh("rect", 2, 5, True)
        s = zoo._aero_surface("wing", mesh, True, np.zeros(2), colour="blue")
        prob = om.Problem(reports=False)
        prob.model.add_subsystem("wing", Geometry(surface=s))
        return prob

    return _stage_runner(build)


def _warn_surface_key_second_problem():
    """Two Problems, two different dict objects, the same unknown key: the second must warn as well."""
    first = _warn_surface_key()
    second = _warn_surface_key()
    second["warnings_first"] = first["warnings"]
    return second


def _warn_key_added_to_reused_dict():
    """A dict that already went through one valid set-up gets an unknown key and is used again."""
    import openmdao.api as om
    from openaerostruct.geometry.geometry_group import Geometry

    md, mesh, _ = zoo._gen_mesh("rect", 2, 5, True)
    s = zoo._aero_surface("wing", mesh, True, np.zeros(2))

    def build_valid():
        prob = om.Problem(reports=False)
        prob.model.add_subsystem("wing", Geometry(surface=s))
        return prob

    first = _stage_runner(build_valid)

    def build_bad():
        s["colour"] = "blue"
        prob = om.Problem(reports=False)
        prob.model.add_subsystem("wing", Geometry(surface=s))
        return prob

    second = _stage_runner(build_bad)
    second["first_stage"] = first["stage"]
    return second


def _warn_mesh_key_twice():
    _warn_mesh_key()
    return _warn_mesh_key()


# name -> (callable, required exception type or None (= any exception is fine), needs_warning substring or None)
ERROR_TABLE = {
    "ground_effect_without_symmetry": (_bad_ground_no_symmetry, "ValueError", None),
    "ground_effect_without_symmetry_aerostruct": (_bad_ground_no_symmetry_aerostruct, "ValueError", None),
    "ground_effect_second_surface_not_symmetric": (_bad_ground_second_surface_not_symmetric, "ValueError", None),
    "even_num_y": (_bad_even_num_y, "ValueError", None),
    "even_num_y_crm_full_span": (_bad_even_num_y_crm, "ValueError", None),
    "unknown_wing_type": (_bad_wing_type, "NameError", None),
    "unknown_fem_model_type_struct": (_bad_fem_model_type_struct, None, None),
    "unknown_fem_model_type_aerostruct": (_bad_fem_model_type_aerostruct, None, None),
    "unknown_fem_model_type_point_only": (lambda: _bad_fem_model_type_below_geometry("point"), None, None),
    "unknown_fem_model_type_functionals": (lambda: _bad_fem_model_type_below_geometry("funcs"), None, None),
    "only_skin_thickness_struct": (lambda: _bad_one_wingbox_thickness("spar_thickness_cp", False), "NameError", None),
    "only_spar_thickness_struct": (lambda: _bad_one_wingbox_thickness("skin_thickness_cp", False), "NameError", None),
    "only_skin_thickness_aerostruct": (lambda: _bad_one_wingbox_thickness("spar_thickness_cp", True), "NameError", None),
    "only_spar_thickness_aerostruct": (lambda: _bad_one_wingbox_thickness("skin_thickness_cp", True), "NameError", None),
    "multisection_ny_length": (lambda: _bad_multisection("ny"), "ValueError", None),
    "multisection_taper_length": (lambda: _bad_multisection("taper"), "ValueError", None),
    "multisection_span_length": (lambda: _bad_multisection("span"), "ValueError", None),
    "multisection_sweep_length": (lambda: _bad_multisection("sweep"), "ValueError", None),
    "multisection_sec_name_length": (lambda: _bad_multisection("sec_name"), "ValueError", None),
    "multisection_meshes_length": (lambda: _bad_multisection("meshes"), "ValueError", None),
    "full_mesh_none": (lambda: _bad_full_mesh("none"), "ValueError", None),
    "full_mesh_both": (lambda: _bad_full_mesh("both"), "ValueError", None),
    "unknown_mesh_dict_key": (_warn_mesh_key, "WARN", "num_z"),
    "unknown_surface_dict_key": (_warn_surface_key, "WARN", "colour"),
    "unknown_surface_dict_key_second_problem": (_warn_surface_key_second_problem, "WARN", "colour"),
    "unknown_key_added_to_reused_dict": (_warn_key_added_to_reused_dict, "WARN", "colour"),
    "unknown_mesh_dict_key_second_call": (_warn_mesh_key_twice, "WARN", "num_z"),
    "degenerate_coplanar_tail_at_alpha_0": (_degenerate_coplanar_tail_alpha0, "FINITE_OR_ERROR", None),
    "generate_mesh_results_independent": (_alias_generate_mesh, "ALIAS", None),
    "multisection_ny_length_after_valid_build": (lambda: _bad_multisection_after_valid("ny"), "ValueError", None),
    "multisection_taper_length_after_valid_build": (lambda: _bad_multisection_after_valid("taper"), "ValueError", None),
    "multisection_span_length_after_valid_build": (lambda: _bad_multisection_after_valid("span"), "ValueError", None),
    "multisection_sweep_length_after_valid_build": (lambda: _bad_multisection_after_valid("sweep"), "ValueError", None),
    "multisection_sec_name_length_after_valid_build": (lambda: _bad_multisection_after_valid("sec_name"), "ValueError", None),
    "multisection_ny_too_long": (lambda: _bad_multisection("ny", True), "ValueError", None),
    "multisection_taper_too_long": (lambda: _bad_multisection("taper", True), "ValueError", None),
    "multisection_span_too_long_after_valid_build": (lambda: _bad_multisection_after_valid("span", True), "ValueError", None),
    "multisection_sweep_too_long_after_valid_build": (lambda: _bad_multisection_after_valid("sweep", True), "ValueError", None),
    "multisection_taper_too_long_after_valid_build": (lambda: _bad_multisection_after_valid("taper", True), "ValueError", None),
    "multisection_taper_too_long_with_bpanels": (lambda: _bad_multisection("taper", True, True), "ValueError", None),
    "multisection_span_too_long_with_bpanels": (lambda: _bad_multisection("span", True, True), "ValueError", None),
    "multisection_sweep_length_with_bpanels": (lambda: _bad_multisection("sweep", False, True), "ValueError", None),
    "reused_surface_dict_with_new_mesh": (_scenario_reuse_dict_new_mesh, "SCENARIO", None),
    "zero_lift_evaluation_leaves_process_clean": (_scenario_zero_lift_then_ordinary, "SCENARIO", None),
}


def judge_bad_setup(name, info):
    """Return None if the malformed set-up was handled as the property demands, else a description."""
    fn, exc, warn = ERROR_TABLE[name]
    if exc == "SCENARIO":
        if info["exc"]:
            return "scenario raised %s: %s" % (info["exc"], info["msg"])
        if info.get("mismatch"):
            k_, e_, s_ = info["mismatch"]
            return "scenario outcome differs from the pristine one: %s by %.3g (scale %.3g)" % (k_, e_, s_)
        return None
    if exc == "ALIAS":
        if info["exc"]:
            return "mesh generator raised %s: %s" % (info["exc"], info["msg"])
        if info.get("alias"):
            return "; ".join(info["alias"])
        return None
    if exc == "FINITE_OR_ERROR":
        if info["produced_numbers"] and not info.get("finite"):
            return "returned normally with non-finite outputs (no error raised)"
        return None
    if exc == "WARN":
        if not any(warn in w for w in info["warnings"]):
            return "no RuntimeWarning naming the unknown key %r (stage=%s exc=%s)" % (warn, info["stage"], info["exc"])
        return None
    if info["produced_numbers"] or info["exc"] is None:
        return "accepted silently: reached %s without an exception" % info["stage"]
    if info["stage"] == "run_model":
        return "only failed inside run_model (%s), not at or before set-up" % info["exc"]
    # The exception *type* is recorded (evidence: error_types_seen) but not demanded: the property asks for "an error
    # instead of numbers", and turning a NameError into a ValueError would be a legitimate clean-up, not a violation.
    return None


# ------------------------------------------------------------------------------------------------
# generation (run in a throw-away child so that the executing process stays pristine)
# ------------------------------------------------------------------------------------------------


SWEEPABLE = ("Z1", "Z2", "Z3", "Z4", "Z6", "Z8", "Z9", "Z11", "Z12", "Z13", "Z15")


def _gen_sweep(seed, tier, rng, nprng):
    """A parameter study as users write them: one configuration evaluated for alternating settings of one option,
    one Problem at a time, each dropped and collected before the next is built. Lifetimes never overlap, objects are
    created and destroyed in the same order every time, so the objects of one Problem land at the addresses the previous
    one's had: what state keyed by object identity, kept at module level or cached across Problems gets confused by -
    deterministically, not by allocator luck."""
    base = dict(rng.choice([v for v in TENANT_VARIANTS if v["zoo"] in SWEEPABLE]))
    base["ny"] = rng.choice([5, 7])
    base["nx"] = rng.choice([2, 2, 3])
    kind = rng.choice(["mesh_opts", "mesh_opts", "surf_opts", "variant", "size"])
    if kind == "mesh_opts" and base["zoo"] in ("Z13",):
        kind = "surf_opts"
    alts = [dict(base)]
    for _ in range(rng.randint(1, 2)):
        alt = dict(base)
        if kind == "mesh_opts":
            alt["mesh_opts"] = dict(rng.choice(zoo.MESH_OPT_CHOICES))
        elif kind == "surf_opts":
            alt["surf_opts"] = dict(rng.choice(zoo.SURF_OPT_CHOICES))
        elif kind == "variant":
            alt = dict(rng.choice([v for v in TENANT_VARIANTS if v["zoo"] == base["zoo"]]))
            alt["ny"], alt["nx"] = base["ny"], base["nx"]
        else:
            alt["ny"] = 7 if base["ny"] == 5 else 5
        alts.append(alt)
    n = rng.randint(4, 6) if tier != "thorough" else rng.randint(4, 9)
    tenants, script = [], []
    probes = {}
    for t in range(n):
        spec = dict(alts[t % len(alts)])
        spec["mode"] = "fwd"
        key = core.digest(spec)
        if key not in probes:
            probes[key] = core.in_child(_probe_spec, spec)
        model = probes[key]
        pt = {}
        for inp in model.inputs:
            pt[inp.name] = inp.draw(nprng, rng, inp.c20_special_p) if (t >= len(alts) and rng.random() < 0.3) else inp.nom.copy()
        if zoo.is_wind_off(pt):
            pt["rho"] = model.inp("rho").nom.copy()
        ops = [{"op": "build"}, {"op": "final_setup"}, {"op": "set", "k": 0}, {"op": "run"}]
        if rng.random() < 0.4:
            ops.append({"op": "totals"})
        ops.append({"op": "drop"})
        tenants.append({"id": t, "spec": spec, "points": [{k: np.asarray(v).tolist() for k, v in pt.items()}], "ops": ops,
                        "twin_of": None, "late": False})
        for i in range(len(ops)):
            script.append(["t", t, i])
    for name in ("unknown_surface_dict_key", "unknown_mesh_dict_key", "even_num_y", "unknown_wing_type"):
        script.append(["bad", name])
    return {
        "property": PROP, "seed": seed, "tenants": tenants, "script": script, "share": None, "shape": "sweep:" + kind,
        "env_rerun": bool(rng.random() < 0.15),
        "env_variant": {"PYTHONHASHSEED": str(rng.choice([1, 7, 123, 99991])), "threads": str(rng.choice([1, 4, 16])),
                        "cwd": rng.choice(["scratch", "scratch/sub dir"]), "optimize": rng.choice(["0", "0", "1"])},
    }


def _gen(seed, tier, opts):
    rng, nprng = core.rngs(seed)
    if rng.random() < 0.2:
        return _gen_sweep(seed, tier, rng, nprng)
    n_ten = rng.randint(2, 4) if tier != "thorough" else rng.randint(2, 6)
    share_level = rng.choice([None, None, "mesh", "surface"])
    tenants = []
    for t in range(n_ten):
        twin_of = None
        if tenants and rng.random() < 0.3:
            twin_of = rng.randrange(len(tenants))
            base = tenants[twin_of]
            if base.get("twin_of") is not None:
                twin_of = base["twin_of"]
                base = tenants[twin_of]
            ten = json.loads(json.dumps(base))
            ten["id"] = t
            ten["twin_of"] = twin_of
            tenants.append(ten)
            continue
        relative = None
        if tenants and share_level and rng.random() < 0.6:
            # same zoo entry and mesh size as an earlier tenant, so that user objects are really shared
            spec = dict(rng.choice(tenants)["spec"])
        elif tenants and rng.random() < 0.35:
            # a *relative* of an earlier tenant: the same component classes, surface names and mesh size, but another
            # variant of the zoo entry or another mesh spacing / surface option - what state kept per class, per surface
            # name or per object address gets confused by
            relative = rng.choice([t_ for t_ in tenants if t_.get("twin_of") is None])
            base = relative["spec"]
            same_zoo = [v for v in TENANT_VARIANTS if v["zoo"] == base["zoo"]]
            spec = dict(rng.choice(same_zoo))
            for k_ in ("ny", "nx"):
                if k_ in base:
                    spec[k_] = base[k_]
            r_ = rng.random()
            if rng.random() < 0.3 and base["zoo"] not in ("Z14", "Z5", "Z7", "Z10"):
                # ... or the same configuration on another mesh size (a coarse-then-refined study): the same surface
                # names and classes with other array shapes - what state keyed by name alone gets confused by
                spec = dict(base)
                spec.pop("mode", None)
                spec["ny"] = 7 if base.get("ny", 5) == 5 else 5
                if rng.random() < 0.5:
                    spec["nx"] = 3 if base.get("nx", 2) == 2 else 2
                r_ = 1.0
            if r_ < 0.5 and base["zoo"] in ("Z1", "Z2", "Z3", "Z4", "Z6", "Z8", "Z9", "Z11", "Z12", "Z15"):
                others = [m_ for m_ in zoo.MESH_OPT_CHOICES if m_ != base.get("mesh_opts")]
                spec["mesh_opts"] = dict(rng.choice(others))
            elif r_ < 0.8 and base["zoo"] in ("Z1", "Z2", "Z3", "Z4", "Z8", "Z9", "Z10", "Z11", "Z12", "Z13", "Z15"):
                others = [m_ for m_ in zoo.SURF_OPT_CHOICES if m_ != base.get("surf_opts")]
                spec["surf_opts"] = dict(rng.choice(others))
        else:
            spec = dict(rng.choice(TENANT_VARIANTS))
            if spec["zoo"] in ("Z10", "Z7"):
                spec["ny"] = rng.choice([5, 7])
            elif spec["zoo"] == "Z5":
                spec["ny"] = rng.choice([3, 5])
            elif spec["zoo"] in ("Z2", "Z9"):
                spec["ny"] = rng.choice([3, 5, 7])
                spec["nx"] = rng.choice([2, 3])
            elif spec["zoo"] not in ("Z14",):
                spec["ny"] = rng.choice([5, 7])
                spec["nx"] = rng.choice([2, 2, 3])
        spec["mode"] = rng.choice(["fwd", "rev"])
        if "mesh_opts" not in spec and spec["zoo"] in ("Z1", "Z2", "Z3", "Z4", "Z6", "Z8", "Z9", "Z11", "Z12", "Z15") and rng.random() < 0.35:
            spec["mesh_opts"] = dict(rng.choice(zoo.MESH_OPT_CHOICES))
        if "surf_opts" not in spec and spec["zoo"] in ("Z1", "Z2", "Z3", "Z4", "Z8", "Z9", "Z10", "Z11", "Z12", "Z13", "Z15") and rng.random() < 0.3:
            spec["surf_opts"] = dict(rng.choice(zoo.SURF_OPT_CHOICES))
        # what the generator needs to know about the tenant (inputs, component paths) is read from a model built in a
        # pristine child of its own: the generator must not be the first place where several Problems share a process
        model = core.in_child(_probe_spec, spec)
        npts = rng.randint(1, 3)
        points = []
        for _ in range(npts):
            pt = {}
            for inp in model.inputs:
                pt[inp.name] = inp.draw(nprng, rng, inp.c20_special_p) if rng.random() < 0.5 else inp.nom.copy()
            if zoo.is_wind_off(pt):
                # wind-off (rho = 0) makes coefficient-type outputs 0/0: not an input for which "all outputs finite" can
                # hold, so it is not part of C20's admissible set (C03 and C12 use it, NaN-pattern-aware)
                pt["rho"] = model.inp("rho").nom.copy()
            points.append({k: np.asarray(v).tolist() for k, v in pt.items()})
        # setup() and final_setup() are separate steps so that the scheduler can put another tenant's set-up
        # between them (class-level state written in setup() and read later manifests exactly there)
        ops = [{"op": "build"}, {"op": "final_setup"}, {"op": "set", "k": 0}, {"op": "run"}]
        for _ in range(rng.randint(1, 5)):
            r = rng.random()
            if r < 0.2:
                ops.append({"op": "set", "k": rng.randrange(npts)})
                ops.append({"op": "run"})
            elif r < 0.4:
                ops.append({"op": "run"})
            elif r < 0.65:
                ops.append({"op": "totals"})
            elif r < 0.8:
                ops.append({"op": "linearize"})
            elif r < 0.9:
                if "disk_dir" in model.notes and rng.random() < 0.7:
                    # this tenant's disk fails during an evaluation (its directory only): gone, read-only or full
                    ops.append({"op": "disk", "fault": rng.choice(["enoent", "eacces", "enospc"]), "after": rng.choice([0, 60, 400])})
                else:
                    ops.append({"op": "abort", "frac": round(rng.uniform(0.05, 0.95), 3)})
                ops.append({"op": "run"})
            else:
                comp_paths = list(model.comp_paths)
                inc = sorted(rng.sample(comp_paths, min(len(comp_paths), 2))) if comp_paths else None
                ops.append({"op": "check_partials", "includes": inc})
        if rng.random() < 0.5:
            ops.append({"op": "drop"})
            if rng.random() < 0.4:
                # build the same tenant again from new objects (ids of collected objects may be reused) and repeat
                ops += [{"op": "rebuild"}, {"op": "final_setup"}, {"op": "set", "k": 0}, {"op": "run"}, {"op": "totals"}, {"op": "drop"}]
        late = bool(t > 0 and rng.random() < (0.6 if relative is not None else 0.3))
        if late and relative is not None and not any(o["op"] == "drop" for o in relative["ops"]):
            relative["ops"].append({"op": "drop"})  # the relative dies (and is collected) before the late one is born
        tenants.append({"id": t, "spec": spec, "points": points, "ops": ops, "twin_of": None, "late": late})
    # malformed set-ups as short-lived tenants
    bad = []
    names = sorted(ERROR_TABLE)
    for _ in range(rng.randint(1, 3)):
        bad.append(rng.choice(names))
    # merge into one sequential script
    cursors = {t["id"]: 0 for t in tenants}
    script = []
    pending_bad = list(bad)
    dropped = 0
    while any(cursors[t["id"]] < len(t["ops"]) for t in tenants) or pending_bad:
        choices = [t["id"] for t in tenants if cursors[t["id"]] < len(t["ops"])]
        # a late tenant only comes to life after some other tenant has been dropped and collected (its new objects may
        # land at the addresses of the dead ones); if nothing is ever dropped it simply starts last
        early = [c for c in choices if not (tenants[c].get("late") and cursors[c] == 0 and dropped == 0)]
        if early:
            choices = early
        if pending_bad and (not choices or rng.random() < 0.15):
            script.append(["bad", pending_bad.pop(0)])
            continue
        tid = rng.choice(choices)
        # run a burst of 1-2 ops of this tenant
        for _ in range(rng.randint(1, 2)):
            if cursors[tid] < len(tenants[tid]["ops"]):
                script.append(["t", tid, cursors[tid]])
                if tenants[tid]["ops"][cursors[tid]]["op"] == "drop":
                    dropped += 1
                cursors[tid] += 1
    # epilogue: whatever the tenants did to process-wide state (warning filters, registries, module-level tables),
    # at the end of every program the cheap rejection and warning rows must still behave
    for name in ("unknown_surface_dict_key", "unknown_mesh_dict_key", "even_num_y", "unknown_wing_type"):
        script.append(["bad", name])
    case = {
        "property": PROP, "seed": seed, "tenants": tenants, "script": script, "share": share_level,
        "env_rerun": bool(rng.random() < (0.25 if tier == "quick" else 0.5)),
        "env_variant": {"PYTHONHASHSEED": str(rng.choice([1, 7, 123, 99991])), "threads": str(rng.choice([1, 4, 16])),
                        "cwd": rng.choice(["scratch", "scratch/sub dir"]), "optimize": rng.choice(["0", "0", "1"])},
    }
    return case


def generate(seed, tier, opts):
    return core.in_child(_gen, seed, tier, opts)


# ------------------------------------------------------------------------------------------------
# execution
# ------------------------------------------------------------------------------------------------


class _Probe:
    """Picklable summary of a built model for the generator."""

    def __init__(self, inputs, notes, comp_paths):
        self.inputs, self.notes, self.comp_paths = inputs, notes, comp_paths

    def inp(self, name):
        for i in self.inputs:
            if i.name == name:
                return i
        raise KeyError(name)


def _probe_spec(spec):
    m = zoo.build(spec)
    return _Probe(list(m.inputs), {k: True for k in m.notes}, [c.pathname for c in obs.components(m.prob) if obs.is_oas(c)])


class Tenant:
    def __init__(self, spec_t):
        self.t = spec_t
        self.model = None
        self.points = [{k: np.array(v, dtype=float) for k, v in p.items()} for p in spec_t["points"]]
        self.cur = None
        self.converged = False
        self.last_calls = None
        self.user0 = None
        self.dead = False

    def step(self, op, obs_out, stats):
        k = op["op"]
        if k == "build":
            if zoo.SHARE is not None:
                zoo.SHARE["ctx"] = core.digest({a: b for a, b in self.t["spec"].items() if a != "mode"})
            self.model = zoo.build(self.t["spec"])
            self.user0 = zoo.user_array_digests(self.model.user_dicts)
            self.dead = False
            self.converged = False
            return
        if k == "rebuild":
            obs_out.append(("rebuild", {}))
            stats["rebuild"] = stats.get("rebuild", 0) + 1
            return self.step({"op": "build"}, obs_out, stats)
        if self.model is None or self.dead:
            return
        if k == "final_setup":
            with _quiet():
                self.model.prob.final_setup()
            return
        prob = self.model.prob
        import openmdao.api as om

        if k == "set":
            self.cur = op["k"] % len(self.points)
            self.model.set_point(self.points[self.cur])
            self.converged = False
        elif k == "run":
            with faults.AbortInjector(prob, at=None) as inj, _quiet():
                prob.run_model()
            self.last_calls = inj.count
            stats["component_calls"] = stats.get("component_calls", 0) + inj.count
            self.converged = True
            obs_out.append(("run", obs.read_outputs(prob)))
            if "disk_dir" in self.model.notes:
                obs_out.append(("files", simdisk.as_arrays(simdisk.read_files(prob))))
                stats["solution_files_observed"] = stats.get("solution_files_observed", 0) + 1
        elif k == "totals":
            if not self.converged:
                return
            with _quiet():
                tot = obs.read_totals(prob, self.model.of, self.model.wrt)
            obs_out.append(("totals", {"%s|%s" % k2: v for k2, v in tot.items()}))
        elif k == "linearize":
            if not self.converged:
                return
            with _quiet():
                prob.model.run_linearize()
            sj = obs.read_subjacs(prob)
            obs_out.append(("subjacs", {"%s|%s" % k2: v for k2, v in sj.items()}))
        elif k == "check_partials":
            if not self.converged:
                return
            try:
                with _quiet():
                    prob.check_partials(out_stream=None, method="fd", includes=op.get("includes"), compact_print=True)
            except Exception as e:  # the same op raises the same way in isolation: recorded, compared
                import zlib

                # (a stable code for the exception class: the built-in hash() of a str changes with PYTHONHASHSEED -
                # using it made the harness itself irreproducible between interpreters, found by soak)
                obs_out.append(("check_partials_raised", {"exc": np.array([zlib.crc32(type(e).__name__.encode()) % 997], dtype=float)}))
                return
            obs_out.append(("after_check_partials", obs.read_outputs(prob)))
        elif k == "abort":
            total = self.last_calls or 40
            at = max(1, int(op["frac"] * total))
            with faults.AbortInjector(prob, at=at) as inj, _quiet():
                try:
                    prob.run_model()
                    self.converged = True
                except om.AnalysisError:
                    self.converged = False
            if inj.fired:
                stats["abort_fired"] = stats.get("abort_fired", 0) + 1
        elif k == "disk":
            d = self.model.notes.get("disk_dir")
            if d is None:
                return
            simdisk.DISK.arm(d, op["fault"], op.get("after"))
            try:
                with _quiet():
                    prob.run_model()
                self.converged = True
            except Exception:  # loud failure of this tenant's evaluation (OpenMDAO re-wraps the OSError)
                self.converged = False
                stats["disk_fault_fired"] = stats.get("disk_fault_fired", 0) + 1
            finally:
                simdisk.DISK.disarm(d)
        elif k == "drop":
            zoo.note_dead(self.model)
            self.model = None
            self.dead = True
            gc.collect()
            stats["gc_drop"] = stats.get("gc_drop", 0) + 1

    def user_ok(self):
        if self.model is None:
            return None
        now = zoo.user_array_digests(self.model.user_dicts)
        if now != self.user0:
            return sorted(k for k in self.user0 if now.get(k) != self.user0[k])
        ch = zoo.early_changed(self.model)
        if ch:
            return ["early/" + ch]
        return None


def _run_isolated(tenant, op_indices):
    """The tenant's executed ops, alone (called inside a pristine forked child)."""
    zoo.SHARE = None
    t = Tenant(tenant)
    out = []
    stats = {}
    for i in op_indices:
        t.step(tenant["ops"][i], out, stats)
    return out


def _run_program(case, stats, user_violations, bad_results):
    """The interleaved script. Returns {tenant id: [observations]}."""
    zoo.SHARE = {"level": case["share"], "reg": {}} if case.get("share") else None
    tenants = {t["id"]: Tenant(t) for t in case["tenants"]}
    out = {tid: [] for tid in tenants}
    last_tid = None
    switches = 0
    live_overlap = 0
    for step in case["script"]:
        if step[0] == "bad":
            name = step[1]
            saved_share = zoo.SHARE
            zoo.SHARE = None  # a malformed set-up is its own user script: it never receives a tenant's shared objects
            try:
                info = ERROR_TABLE[name][0]()
            finally:
                zoo.SHARE = saved_share
            bad_results.append((name, info))
            stats["bad_setup"] = stats.get("bad_setup", 0) + 1
            last_tid = "bad"
            continue
        _, tid, opi = step
        if last_tid is not None and last_tid != tid:
            switches += 1
        last_tid = tid
        ten = tenants[tid]
        op = ten.t["ops"][opi]
        ten.step(op, out[tid], stats)
        n_live = sum(1 for x in tenants.values() if x.model is not None)
        if n_live >= 2:
            live_overlap += 1
        for x in tenants.values():
            bad = x.user_ok()
            if bad:
                user_violations.append((x.t["id"], tid, op["op"], bad[0]))
    stats["context_switches"] = switches
    stats["steps_with_two_live_tenants"] = live_overlap
    zoo.SHARE = None
    return out


def _cmp_obs(a, b, rt):
    """Compare two observation lists. Returns (mismatches, n_compared, n_bit_identical)."""
    bad = []
    n = bit = 0
    if len(a) != len(b):
        return [("length", len(a), len(b))], 0, 0
    for i, ((ka, da), (kb, db)) in enumerate(zip(a, b)):
        if ka != kb:
            bad.append(("kind", i, ka, kb))
            continue
        for name, vb in db.items():
            va = da.get(name)
            n += 1
            if va is None:
                bad.append(("missing", i, ka, name))
                continue
            if np.array_equal(va, vb):
                bit += 1
                continue
            if ka == "files":
                # printed with six digits after the point: a last digit apart is round-off, anything more is not
                ok, err, scale = simdisk.close_enough(va, vb)
            else:
                ok, err, scale = obs.cmp_arrays(va, vb, rt, 0.0)
            if not ok:
                bad.append(("differs", i, ka, name, err, scale))
    return bad, n, bit


def _where_name(name):
    n = name.split("|")[0]
    return ".".join(n.split(".")[-2:])


def vclass(v):
    return (v["cls"], v["where"])


def execute(case, stop_at_first=True, collect=True, known=None):
    res = {"seed": case.get("seed"), "violations": [], "known": [], "probes": {}, "fault_fired": {}, "stats": {},
           "n_obs": 0, "n_bit_identical": 0, "interleave_hash": None, "nontrivial": False}
    known = known if known is not None else core.load_known_findings()
    log = core.EventLog(keep=collect)

    def violation(cls, where, err=float("inf"), scale=0.0, extra=None):
        v = {"cls": cls, "where": where, "err": err, "scale": scale, "needs": []}
        if extra:
            v.update(extra)
        k = core.match_known(PROP, v, known)
        if k is not None:
            v["known_id"] = k.get("id")
            res["known"].append(v)
        else:
            res["violations"].append(v)

    # 1. isolated references, each in its own pristine forked child (forked before this process builds anything)
    iso = {}
    iso_key = {}
    for t in case["tenants"]:
        src = t["twin_of"] if t.get("twin_of") is not None else t["id"]
        idx = tuple(s[2] for s in case["script"] if s[0] == "t" and s[1] == t["id"])
        iso_key[t["id"]] = (src, idx)
        if (src, idx) not in iso:
            iso[(src, idx)] = core.in_child(_run_isolated, case["tenants"][src], idx, timeout=TASK_TIMEOUT)
    # 2. the interleaved program, in this (so far pristine) process
    stats = res["stats"]
    user_viol = []
    bad_results = []
    g0 = _global_state()
    try:
        prog = _run_program(case, stats, user_viol, bad_results)
    except HarnessError:
        raise
    except Exception as e:  # an exception here did not occur in isolation (the children succeeded)
        import traceback

        tb = traceback.extract_tb(e.__traceback__)
        frames = [f for f in tb if "/openaerostruct/" in f.filename]
        where = "%s:%s" % (os.path.basename(frames[-1].filename), frames[-1].name) if frames else type(e).__name__
        violation("exception_only_when_interleaved", where, extra={"message": str(e)[:300]})
        res["digest"] = log.hexdigest()
        res["log"] = []
        return res
    g1 = _global_state()
    for what in g0:
        if g0[what] != g1[what]:
            violation("global_state_changed", what, extra={"before": g0[what], "after": g1[what]})
    # 3. compare
    for t in case["tenants"]:
        bad, n, bit = _cmp_obs(prog[t["id"]], iso[iso_key[t["id"]]], RT_ISOLATED)
        res["n_obs"] += n
        res["n_bit_identical"] += bit
        log.add("tenant", t["id"], t["spec"]["zoo"], n, bit, core.digest([(k, d) for k, d in prog[t["id"]]]))
        for b in bad[:2]:
            if b[0] == "differs":
                violation("isolation", "%s:%s" % (b[2], _where_name(b[3])), b[4], b[5], {"tenant": t["id"], "zoo": t["spec"]["zoo"], "share": case.get("share"), "twin_of": t.get("twin_of")})
            else:
                violation("isolation", "structure:%s" % (b[0],), extra={"tenant": t["id"], "detail": [str(x) for x in b]})
        # a tenant that is dropped, collected and built again from new objects must reproduce its first results
        lst = prog[t["id"]]
        marks = [i for i, (kind, _d) in enumerate(lst) if kind == "rebuild"]
        if marks:
            first = next((d for kind, d in lst[: marks[0]] if kind == "run"), None)
            again = next((d for kind, d in lst[marks[0]:] if kind == "run"), None)
            if first is not None and again is not None:
                res["probes"]["rebuilt_tenant_compared"] = res["probes"].get("rebuilt_tenant_compared", 0) + 1
                for name, vb in first.items():
                    ok, err, scale = obs.cmp_arrays(again.get(name, np.array([np.nan])), vb, RT_ISOLATED, 0.0)
                    if not ok:
                        violation("not_repeatable_after_rebuild", "run:%s" % _where_name(name), err, scale, {"tenant": t["id"], "zoo": t["spec"]["zoo"]})
                        break
        for kind, d in prog[t["id"]]:
            if kind == "run":
                nf = obs.all_finite(d)
                if nf:
                    violation("nonfinite", _where_name(nf), extra={"tenant": t["id"], "zoo": t["spec"]["zoo"]})
                    break
    for (owner, actor, opk, key) in user_viol[:2]:
        violation("user_data_modified", key.split("/", 1)[-1], extra={"owner": owner, "actor": actor, "op": opk})
    for name, info in bad_results:
        res["probes"]["bad_" + name] = res["probes"].get("bad_" + name, 0) + 1
        verdict = judge_bad_setup(name, info)
        log.add("bad", name, info["stage"], info["exc"])
        if verdict:
            violation("bad_setup_accepted", name, extra={"detail": verdict, "info": {k: info[k] for k in ("stage", "exc", "msg", "warnings")}})
    # 4. environment faults between runs
    if case.get("env_rerun") and not res["violations"]:
        envobs = _rerun_in_fresh_interpreter(case)
        res["fault_fired"]["env_rerun"] = 1
        res["probes"]["env_hashseed_%s" % case["env_variant"]["PYTHONHASHSEED"]] = 1
        res["probes"]["env_threads_%s" % case["env_variant"]["threads"]] = 1
        res["probes"]["env_optimize_%s" % case["env_variant"].get("optimize", "0")] = 1
        # the malformed set-ups must be rejected in that interpreter as well (python -O strips asserts, for instance)
        for name, verdict in envobs.get("__verdicts__", []):
            if verdict:
                violation("bad_setup_accepted", name, extra={"detail": verdict, "env": case["env_variant"], "where_run": "fresh interpreter"})
        for what in envobs.get("__global_state_changed__", []):
            violation("global_state_changed", what, extra={"env": case["env_variant"], "where_run": "fresh interpreter"})
        for t in case["tenants"]:
            bad, n, bit = _cmp_obs(envobs[str(t["id"])], prog[t["id"]], RT_ENV)
            res["stats"]["env_obs"] = res["stats"].get("env_obs", 0) + n
            res["stats"]["env_bit_identical"] = res["stats"].get("env_bit_identical", 0) + bit
            for b in bad[:2]:
                if b[0] == "differs":
                    violation("not_reproducible_between_runs", "%s:%s" % (b[2], _where_name(b[3])), b[4], b[5],
                              {"tenant": t["id"], "zoo": t["spec"]["zoo"], "env": case["env_variant"]})
                else:
                    violation("not_reproducible_between_runs", "structure:%s" % (b[0],), extra={"detail": [str(x) for x in b]})
    # bookkeeping
    for k in ("abort_fired", "gc_drop", "bad_setup", "disk_fault_fired"):
        if stats.get(k):
            res["fault_fired"][k] = stats[k]
    if case.get("share"):
        res["probes"]["share_%s" % case["share"]] = 1
    if any(t.get("twin_of") is not None for t in case["tenants"]):
        res["probes"]["twin_tenants"] = 1
    seq = [s[1] for s in case["script"]]
    res["interleave_hash"] = core.digest([seq, case.get("share"), [t["spec"]["zoo"] for t in case["tenants"]]])
    res["nontrivial"] = bool(stats.get("steps_with_two_live_tenants", 0) >= 1 and stats.get("context_switches", 0) >= 1)
    if zoo.ADDRESS_REUSED[0]:
        res["probes"]["surface_dict_born_at_a_dead_ones_address"] = zoo.ADDRESS_REUSED[0]
    if str(case.get("shape", "")).startswith("sweep"):
        res["probes"]["sweep_program_" + case["shape"].split(":")[1]] = 1
        res["nontrivial"] = bool(stats.get("gc_drop", 0) >= 3)  # at least three Problems were born after another one died
    res["digest"] = log.hexdigest()
    res["log"] = log.lines if collect else []
    return res


def _rerun_in_fresh_interpreter(case):
    """Execute the same program in a fresh interpreter under another PYTHONHASHSEED / BLAS thread count / cwd."""
    d = tempfile.mkdtemp(prefix="envrun-", dir=core.scratch_dir())
    cf = os.path.join(d, "case.json")
    of = os.path.join(d, "obs.npz")
    with open(cf, "w") as f:
        json.dump(case, f)
    cwd = os.path.join(d, case["env_variant"]["cwd"])
    os.makedirs(cwd, exist_ok=True)
    env = dict(os.environ)
    env.update(core.required_env())
    env["PYTHONHASHSEED"] = case["env_variant"]["PYTHONHASHSEED"]
    env["VERIF_HASHSEED"] = case["env_variant"]["PYTHONHASHSEED"]
    for k in ("OPENBLAS_NUM_THREADS", "OMP_NUM_THREADS", "MKL_NUM_THREADS"):
        env[k] = case["env_variant"]["threads"]
    env["VERIF_BLAS_THREADS"] = case["env_variant"]["threads"]
    env["VERIF_SCRATCH_BASE"] = cwd
    if case["env_variant"].get("optimize") == "1":
        env["PYTHONOPTIMIZE"] = "1"
    else:
        env.pop("PYTHONOPTIMIZE", None)
    env.pop("VERIF_REEXEC", None)
    p = subprocess.run([sys.executable, os.path.join(core.VERIF, "sim", "cli.py"), "C20", "--exec-program", cf, of],
                       env=env, capture_output=True, text=True, timeout=TASK_TIMEOUT, cwd=cwd)
    if p.returncode != 0 or not os.path.exists(of):
        raise HarnessError("fresh-interpreter re-execution failed: %s %s" % (p.stdout[-500:], p.stderr[-1500:]))
    z = np.load(of, allow_pickle=False)
    index = json.loads(str(z["__index__"]))
    out = {"__verdicts__": index.pop("__verdicts__", []), "__global_state_changed__": index.pop("__global_state_changed__", [])}
    for tid, lst in index.items():
        out[tid] = []
        for i, (kind, names) in enumerate(lst):
            out[tid].append((kind, {n: z["%s/%d/%d" % (tid, i, j)] for j, n in enumerate(names)}))
    return out


def _global_state():
    """Process-wide numerical settings that library code has no business changing behind the user's back."""
    po = np.get_printoptions()
    return {"np.geterr": json.dumps(np.geterr(), sort_keys=True), "np.printoptions": json.dumps({k: repr(v) for k, v in po.items()}, sort_keys=True),
            # the working directory decides what every relative path of every other Problem in the process means
            "os.getcwd": os.getcwd()}


def exec_program(case_file, out_file):
    """Entry point of the fresh interpreter: run the interleaved program, dump observations."""
    core.bootstrap()
    with open(case_file) as f:
        case = json.load(f)
    bad_results = []
    g0 = _global_state()
    prog = _run_program(case, {}, [], bad_results)
    g1 = _global_state()
    verdicts = [[name, judge_bad_setup(name, info)] for name, info in bad_results]
    arrays = {}
    index = {"__verdicts__": verdicts, "__global_state_changed__": [k for k in g0 if g0[k] != g1[k]]}
    for tid, lst in prog.items():
        index[str(tid)] = []
        for i, (kind, d) in enumerate(lst):
            names = sorted(d)
            index[str(tid)].append([kind, names])
            if False:
                pass
            for j, n in enumerate(names):
                arrays["%s/%d/%d" % (tid, i, j)] = d[n]
    arrays["__index__"] = np.array(json.dumps(index))
    np.savez(out_file, **arrays)
    return 0


# ------------------------------------------------------------------------------------------------
# shrinking
# ------------------------------------------------------------------------------------------------


def shrink(case, target):
    def fails(c):
        try:
            r = execute(dict(c, env_rerun=c.get("env_rerun") and target[0] == "not_reproducible_between_runs"), collect=False)
        except HarnessError:
            return False
        return any(vclass(v) == tuple(target) for v in r["violations"])

    c = json.loads(json.dumps(case))
    # drop whole tenants (and their script steps), keeping twin sources
    for t in list(c["tenants"]):
        tid = t["id"]
        if any(x.get("twin_of") == tid for x in c["tenants"]):
            continue
        trial = json.loads(json.dumps(c))
        trial["script"] = [s for s in trial["script"] if not (s[0] == "t" and s[1] == tid)]
        # keep the tenant entry (ids are positional) but with no ops executed
        if fails(trial):
            c = trial
    # drop bad set-ups
    trial = dict(c, script=[s for s in c["script"] if s[0] != "bad"])
    if trial["script"] != c["script"] and fails(trial):
        c = trial
    # drop trailing steps per tenant via ddmin on the script, keeping per-tenant op order and 'build' first
    def valid(script):
        seen = {}
        for s in script:
            if s[0] == "t":
                if seen.get(s[1], -1) > s[2]:
                    return False
                seen[s[1]] = s[2]
        return True

    script = core.ddmin(c["script"], lambda s: valid(s) and fails(dict(c, script=s)), max_tests=60)
    c["script"] = script
    return c


# ------------------------------------------------------------------------------------------------
# runner interface
# ------------------------------------------------------------------------------------------------

ASSUMPTIONS = [
    "reference = the same tenant's op list executed alone in a pristine forked child of a process that has imported but never used OpenAeroStruct",
    "sequential user scripts only: OAS and OpenMDAO make no thread-safety claim; thread-level interleaving is outside the property",
    "error-path table rows are taken from the property statement; any exception raised at or before setup()/final_setup() counts as a loud rejection (type recorded, not demanded); any warning naming the unknown key counts",
    "exploration: a clean batch is evidence, not proof",
]


def compact(case, res):
    return {
        "seed": case["seed"], "n_ops": len(case["script"]), "violations": res["violations"], "known": res["known"],
        "probes": res["probes"], "fault_fired": res["fault_fired"], "stats": res["stats"], "n_obs": res["n_obs"],
        "n_bit_identical": res["n_bit_identical"], "interleave_hash": res["interleave_hash"], "nontrivial": res["nontrivial"],
        "digest": res.get("digest"), "zoos": [t["spec"]["zoo"] for t in case["tenants"]], "share": case.get("share"),
        "sample": {"tenants": [{"zoo": t["spec"]["zoo"], "twin_of": t.get("twin_of"), "ops": [o["op"] for o in t["ops"]]} for t in case["tenants"]],
                   "script": case["script"], "share": case.get("share")},
    }


def coverage(results, tier):
    probes, fired, zoos, stats = {}, {}, {}, {}
    distinct = set()
    nobs = nbit = 0
    for r in results:
        for k, v in r["probes"].items():
            probes[k] = probes.get(k, 0) + v
        for k, v in r["fault_fired"].items():
            fired[k] = fired.get(k, 0) + v
        for k, v in r["stats"].items():
            stats[k] = stats.get(k, 0) + v
        for z in r["zoos"]:
            zoos[z] = zoos.get(z, 0) + 1
        nobs += r["n_obs"]
        nbit += r["n_bit_identical"]
        if r["nontrivial"] and r["interleave_hash"]:
            distinct.add(r["interleave_hash"])
    rows = sorted(k[4:] for k in probes if k.startswith("bad_"))
    return {
        "distinct_nontrivial": len(distinct),
        "rule": "one case = one seeded program: 2-4 tenants (independent Problems from the zoo, optionally sharing mesh arrays / "
                "surface dicts, optionally exact twins) with 4-12 ops each, 1-3 malformed set-ups, merged by a seeded scheduler; "
                "distinct = distinct hash of (tenant-id interleaving sequence, sharing pattern, configurations); non-trivial = "
                ">=2 live tenants overlapping in time and >=1 context switch. One program in five is instead a parameter sweep: "
                "4-6 Problems of one configuration with alternating settings of one option (mesh spacing, surface option, zoo "
                "variant or mesh size), one alive at a time, each collected before the next is built; non-trivial = >=3 Problems "
                "born after another one died",
        "samples": [r["sample"] for r in results[:2]] or [{}],
        "observations_compared": nobs,
        "observations_bit_identical": nbit,
        "fault_counts_fired": fired,
        "probe_hits": probes,
        "error_table_rows_hit": rows,
        "error_table_rows_total": len(ERROR_TABLE),
        "tenant_configs": zoos,
        "logical_steps": stats,
        "tolerances": {"RT_ISOLATED": RT_ISOLATED, "RT_ENV": RT_ENV},
        "real_vs_stub": {"real": "all of openaerostruct.*, OpenMDAO, numpy/scipy; fresh interpreters for environment variants",
                         "stub": "report/recorder file output off; optimiser driver not used; the disk under the MPhys contour writer is "
                                 "simulated in memory (sim/simdisk.py), faults armed per tenant directory"},
    }
