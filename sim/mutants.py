"""Sensitivity self-test: seeded defects applied one at a time to a scratch copy of the package
(outside /repo and /verif); the corresponding check must report a VIOLATION; the copy is deleted.

Each mutant compiles and is invisible to a single run-once-linearise-once test."""
import os
import sys
import json
import time
import shutil
import tempfile
import subprocess

from . import core

# (name, property, file, old, new, note)
MUTANTS = [
    ("m01_loadtransfer_no_jac_zero", "C03", "transfer/load_transfer.py",
     '        partials["loads", "def_mesh"][:] = 0.0\n', '        pass\n',
     "Jacobian block accumulates across linearisations"),
    ("m02_evalmtx_no_output_zero", "C03", "aerodynamics/eval_mtx.py",
     '            outputs[vel_mtx_name] = 0.0\n', '            pass\n',
     "AIC accumulates onto the previous point's values"),
    ("m03_loadtransfer_tip_row_stale", "C03", "transfer/load_transfer.py",
     '        outputs["loads"][-1, :] = 0.0\n', '        pass\n',
     "last row of loads accumulated with += keeps previous value"),
    ("m04_weightloads_no_zero", "C03", "structures/wing_weight_loads.py",
     '        loads *= 0  # need to zero it out, since we\'re accumulating onto it\n', '        pass\n',
     "struct weight loads accumulate over evaluations"),
    ("m05_createrhs_no_zero", "C03", "structures/create_rhs.py",
     '        outputs["forces"][:] = 0.0\n', '        pass\n',
     "rhs accumulates"),
    ("m06_solvematrix_keep_lu", "C03", "aerodynamics/solve_matrix.py",
     '        system_size = self.system_size\n        self.lu = lu_factor(inputs["mtx"])\n',
     '        system_size = self.system_size\n        if getattr(self, "lu", None) is None:\n            self.lu = lu_factor(inputs["mtx"])\n',
     "LU not refreshed in linearize once it exists -> stale after fd excursion"),
    ("m07_fem_memoise_K", "C03", "structures/fem.py",
     '        k_loc = inputs["local_stiff_transformed"]\n        size = self.size\n',
     '        k_loc = inputs["local_stiff_transformed"]\n        size = self.size\n        if getattr(self, "_K_cache", None) is not None:\n            return self._K_cache\n',
     "stiffness assembled once (cache set below)"),
    ("m08_vortexmesh_cache_alpha_terms", "C03", "aerodynamics/vortex_mesh.py",
     '                data = self._cached_constant_partial_vals[name]\n',
     '                data = self._cached_constant_partial_vals[name]\n                if getattr(self, "_alpha0", None) is None:\n                    self._alpha0 = inputs["alpha"].copy()\n                inputs = {"alpha": self._alpha0, "height_agl": inputs["height_agl"], mesh_name: inputs[mesh_name]}\n',
     "ground-effect Jacobian uses the alpha of the first linearisation"),
    ("m09_mtxrhs_stale_buffers_again", "C03", "aerodynamics/mtx_rhs.py",
     '        self._fill_work_arrays(inputs)\n\n        ind_1 = 0\n', '        ind_1 = 0\n',
     "re-introduces F3 (compute_partials reads buffers left by the last compute). The originally planned mutant - "
     "buffers shared at class level - became harmless once F3 was repaired, because compute_partials now refills them"),
    ("m10_localstiff_module_array_normalised_inplace", "C20", "structures/local_stiff.py",
     '        outputs["local_stiff"] = 0.0\n',
     '        outputs["local_stiff"] = 0.0\n        if surface.get("exact_failure_constraint", False):\n            coeffs_y[:] = coeffs_y * (1.0 + 1e-9)\n',
     "module-level coefficient array modified in place by one kind of tenant -> later Problems differ"),
    ("m11_taper_edits_user_mesh", "C20", "geometry/geometry_mesh_transformations.py",
     '        mesh = self.options["mesh"]\n        symmetry = self.options["symmetry"]\n        taper_ratio = inputs["taper"][0]\n',
     '        mesh = self.options["mesh"]\n        symmetry = self.options["symmetry"]\n        taper_ratio = inputs["taper"][0]\n        if taper_ratio != 1.0 and not np.iscomplexobj(inputs["taper"]):\n            mesh[-1, :, 2] += 0.0 * taper_ratio + 1e-12\n',
     "in-place edit of the user's mesh array when taper != 1"),
    ("m12_unknown_wing_type_falls_back_to_rect", "C20", "geometry/utils.py",
     '        raise NameError("wing_type option not understood. Must be either a type of " + \'"CRM" or "rect".\')\n',
     '        mesh = gen_rect_mesh(num_x, num_y, surf_dict["span"], surf_dict["root_chord"], span_cos_spacing, chord_cos_spacing)\n',
     "unknown wing_type silently treated as a rectangular wing. (The originally planned mutant - dropping the ground-effect "
     "ValueError - turned out to be equivalent under the property as stated: without the raise OpenMDAO still rejects the model "
     "at final_setup with a RuntimeError, which is loud.)"),
    ("m13_loads_use_undeformed_mesh", "C12", "integration/aerostruct_groups.py",
     '            coupled.connect(name + ".def_mesh", name + "_loads.def_mesh")\n',
     '            self.connect("coupled." + name + ".mesh", "coupled." + name + "_loads.def_mesh")\n',
     "load transfer sees the undeformed mesh: fixed point no longer consistent (every path reaches the same wrong state)"),
    ("m14_solver_gives_up_silently", "C12", "integration/aerostruct_groups.py",
     '        coupled.nonlinear_solver.options["maxiter"] = 100\n        coupled.nonlinear_solver.options["atol"] = 1e-7\n        coupled.nonlinear_solver.options["rtol"] = 1e-30\n        coupled.nonlinear_solver.options["iprint"] = 2\n        coupled.nonlinear_solver.options["err_on_non_converge"] = True\n',
     '        coupled.nonlinear_solver.options["maxiter"] = 6\n        coupled.nonlinear_solver.options["atol"] = 1e-7\n        coupled.nonlinear_solver.options["rtol"] = 1e-30\n        coupled.nonlinear_solver.options["iprint"] = 2\n        coupled.nonlinear_solver.options["err_on_non_converge"] = False\n',
     "lower maxiter, no error on non-convergence: result depends on the starting guess"),
    ("m15_disp_transfer_first_mesh_cached", "C12", "transfer/displacement_transfer_group.py", None, None,
     "DisplacementTransfer starts the deformed mesh from the undeformed mesh of its FIRST evaluation (twist/geometry changes of later points ignored)"),
    ("m16_fem_lu_shared_between_instances", "C12", "structures/fem.py",
     '        self._lup = splu(K)\n        outputs["disp_aug"] = self._lup.solve(inputs["forces"])\n',
     '        key = K.shape\n        if FEM.__dict__.get("_lu_by_shape") is None:\n            FEM._lu_by_shape = {}\n        if key not in FEM._lu_by_shape:\n            FEM._lu_by_shape[key] = (splu(K), inputs["local_stiff_transformed"].copy())\n        lu, kref = FEM._lu_by_shape[key]\n        if np.allclose(kref, inputs["local_stiff_transformed"], rtol=1e-3, atol=0.0):\n            self._lup = lu\n        else:\n            self._lup = splu(K)\n            FEM._lu_by_shape[key] = (self._lup, inputs["local_stiff_transformed"].copy())\n        outputs["disp_aug"] = self._lup.solve(inputs["forces"])\n',
     "factorisation reused across instances / points when the stiffness is 'close' (0.1 %): result depends on what was solved before"),
    ("m17_even_numy_silently_rounded", "C20", "geometry/utils.py",
     '        raise ValueError("num_y must be an odd number.")\n',
     '        num_y += 1\n',
     "even num_y silently rounded up"),
    ("m18_unknown_key_warning_once", "C20", "utils/check_surface_dict.py",
     '    for key in surface.keys():\n        if key not in keys_implemented:\n',
     '    for key in surface.keys():\n        if key not in keys_implemented and key not in _WARNED and not _WARNED.add(key):\n',
     "warning only for the first Problem that uses an unknown key (module-level set)"),
    ("m19_momentcoeff_accumulate_again", "C03", "functionals/moment_coefficient.py",
     '        partials["M", "cg"][:] = 0.0\n', '',
     "re-introduces the accumulation of d M / d cg (F1)"),
    ("m20_vonmises_cached_T_again", "C03", "structures/vonmises_tube.py",
     '        T = np.zeros((3, 3), dtype=dtype)\n        E = self.E\n        G = self.G\n        x_gl = np.array([1, 0, 0], dtype=dtype)\n',
     '        T = self.T\n        E = self.E\n        G = self.G\n        x_gl = self.x_gl\n',
     "re-introduces F2"),
    ("m21_contour_writer_caches_dynamic_pressure", "C03", "mphys/surface_contours.py",
     '        q = 0.5 * inputs["rho"] * inputs["v"] ** 2\n',
     '        if getattr(self, "_q", None) is None:\n            self._q = 0.5 * inputs["rho"] * inputs["v"] ** 2\n        q = self._q\n',
     "solution files normalise delta-Cp with the dynamic pressure of the first evaluation (only visible in the files on "
     "the simulated disk)"),
    ("m22_contour_writer_keeps_file_open_on_error", "C03", "mphys/surface_contours.py",
     '            file_handle = open(file_path, "w")\n',
     '            if getattr(self, "_fh_failed", False):\n                return\n            self._fh_failed = True\n            file_handle = open(file_path, "w")\n            self._fh_failed = False\n',
     "after one failed open (directory gone / read-only) the writer silently stops writing for the rest of the "
     "Problem's life: needs a disk fault, then a later evaluation"),
]


def _apply(root, m):
    name, prop, rel, old, new, note = m
    path = os.path.join(root, "openaerostruct", rel)
    src = open(path).read()
    if name == "m07_fem_memoise_K":
        assert old in src
        src = src.replace(old, new)
        src = src.replace("        return coo_matrix((data, (self.k_rows, self.k_cols)), shape=(size, size)).tocsc()",
                          "        self._K_cache = coo_matrix((data, (self.k_rows, self.k_cols)), shape=(size, size)).tocsc()\n        return self._K_cache")
    elif name == "m15_disp_transfer_first_mesh_cached":
        path = os.path.join(root, "openaerostruct", "transfer", "displacement_transfer.py")
        src = open(path).read()
        old = '        outputs["def_mesh"] = inputs["mesh"].copy()\n'
        assert old in src, "m15 anchor"
        src = src.replace(old, '        if getattr(self, "_mesh0", None) is None and not np.iscomplexobj(inputs["mesh"]):\n'
                               '            self._mesh0 = inputs["mesh"].copy()\n'
                               '        outputs["def_mesh"] = (self._mesh0 if not np.iscomplexobj(inputs["mesh"]) else inputs["mesh"]).copy()\n', 1)
    elif name == "m18_unknown_key_warning_once":
        assert old in src
        src = src.replace(old, new)
        src = src.replace("import warnings\n", "import warnings\n\n_WARNED = set()\n", 1)
    else:
        if old not in src:
            raise core.HarnessError("mutant %s: anchor text not found in %s" % (name, rel))
        src = src.replace(old, new, 1)
    open(path, "w").write(src)
    compile(src, path, "exec")


def run(argv):
    only = [a for a in argv if not a.startswith("-")]
    t0 = time.time()
    base = tempfile.mkdtemp(prefix="oasmut-", dir="/dev/shm" if os.path.isdir("/dev/shm") else None)
    results = []
    try:
        for m in MUTANTS:
            name, prop = m[0], m[1]
            if only and not any(o in name for o in only):
                continue
            root = os.path.join(base, name)
            os.makedirs(root)
            shutil.copytree(os.path.join(core.REPO, "openaerostruct"), os.path.join(root, "openaerostruct"),
                            ignore=shutil.ignore_patterns("__pycache__", "docs", "examples"))
            try:
                _apply(root, m)
            except Exception as e:  # noqa
                results.append({"mutant": name, "property": prop, "status": "not-applicable", "detail": str(e)})
                shutil.rmtree(root, ignore_errors=True)
                continue
            env = dict(os.environ)
            env.update(core.required_env())
            env.pop("VERIF_REEXEC", None)
            env["VERIF_REPO"] = root
            env["VERIF_REPLAY_DIR"] = os.path.join(root, "replays")
            env["VERIF_EVIDENCE_DIR"] = os.path.join(root, "evidence")
            env["VERIF_MAX_REPORT"] = "2"
            env["VERIF_STOP_EARLY"] = "1"  # "is it caught", not "how often"
            t1 = time.time()
            p = subprocess.run([sys.executable, os.path.join(core.VERIF, "sim", "cli.py"), prop, "quick"], env=env,
                               capture_output=True, text=True, timeout=1800, cwd=core.VERIF)
            viol = [ln for ln in p.stdout.splitlines() if ln.startswith("VIOLATION")]
            cls = [ln.strip() for ln in p.stdout.splitlines() if ln.strip().startswith("class=")]
            st = "caught" if (p.returncode == 1 and viol) else ("missed" if p.returncode == 0 else "harness-error")
            results.append({"mutant": name, "property": prop, "status": st, "classes": cls[:2], "wall_s": round(time.time() - t1, 1),
                            "note": m[5], "tail": p.stdout.strip().splitlines()[-1:] if st != "caught" else []})
            print("%-48s %s %s %s" % (name, prop, st, cls[:1]), flush=True)
            shutil.rmtree(root, ignore_errors=True)
    finally:
        shutil.rmtree(base, ignore_errors=True)
    evp = os.path.join(core.VERIF, "evidence", "selftest-mutants.json")
    if only and os.path.exists(evp):
        # a partial re-run (names given on the command line) updates those rows of the last full run
        try:
            prev = json.load(open(evp)).get("results", [])
        except Exception:  # noqa
            prev = []
        done = {r["mutant"] for r in results}
        results = sorted([r for r in prev if r.get("mutant") not in done] + results, key=lambda r: r.get("mutant", ""))
    caught = sum(1 for r in results if r["status"] == "caught")
    print("selftest-mutants: %d/%d caught, wall=%.0fs" % (caught, len(results), time.time() - t0))
    core.write_json(os.path.join(core.VERIF, "evidence", "selftest-mutants.json"), {"results": results, "caught": caught, "total": len(results)})
    return 0 if caught == len([r for r in results if r["status"] != "not-applicable"]) else 1


def seeded(argv):
    """Apply every independently seeded change under /verif/seeded to a scratch worktree of /repo HEAD
    (outside /repo and /verif, removed afterwards) and run the quick check(s) that are expected to catch it."""
    import glob

    only = [a for a in argv if not a.startswith("-")]
    t0 = time.time()
    base = tempfile.mkdtemp(prefix="oasseed-", dir="/dev/shm" if os.path.isdir("/dev/shm") else None)
    results = []
    try:
        for mp in sorted(glob.glob(os.path.join(core.VERIF, "seeded", "S*", "meta.json"))):
            meta = json.load(open(mp))
            sid = meta["id"]
            if only and sid not in only:
                continue
            wt = os.path.join(base, sid)
            p = subprocess.run(["git", "-C", core.REPO, "worktree", "add", "-f", "--detach", wt, "HEAD"], capture_output=True, text=True)
            if p.returncode != 0:
                results.append({"id": sid, "status": "harness-error", "detail": p.stderr[-300:]})
                continue
            try:
                p = subprocess.run(["git", "-C", wt, "apply", os.path.join(os.path.dirname(mp), "patch.diff")], capture_output=True, text=True)
                if p.returncode != 0:
                    results.append({"id": sid, "status": "patch-does-not-apply", "detail": p.stderr[-300:]})
                    continue
                det = meta.get("detection", {})
                expect_quiet = all(str(v).startswith("not flagged") for v in det.values()) and bool(det)
                props = [k for k, v in det.items() if "caught" in str(v)] or [meta["property"]]
                row = {"id": sid, "property": meta["property"], "checks": {}, "expected": "quiet" if expect_quiet else "caught"}
                for prop in props:
                    env = dict(os.environ)
                    env.update(core.required_env())
                    env.pop("VERIF_REEXEC", None)
                    env.update({"VERIF_REPO": wt, "VERIF_REPLAY_DIR": os.path.join(base, "rp"), "VERIF_EVIDENCE_DIR": os.path.join(base, "ev"),
                                "VERIF_MAX_REPORT": "2", "VERIF_STOP_EARLY": "1"})
                    q = subprocess.run([sys.executable, os.path.join(core.VERIF, "sim", "cli.py"), prop, "quick"], env=env,
                                       capture_output=True, text=True, timeout=2400, cwd=core.VERIF)
                    cls = [ln.strip().split(" err=")[0] for ln in q.stdout.splitlines() if ln.strip().startswith("class=")]
                    row["checks"][prop] = {"exit": q.returncode, "classes": cls[:2]}
                if not expect_quiet and not any(c["exit"] == 1 for c in row["checks"].values()):
                    # Seeded search samples: a change whose trigger is rare may be missed under one base seed and caught
                    # under the next. Say so instead of hiding it: two more base seeds, reported per seed.
                    prop = meta["property"]
                    row["retries"] = {}
                    for bs in ("1", "2"):
                        env = dict(os.environ)
                        env.update(core.required_env())
                        env.pop("VERIF_REEXEC", None)
                        env.update({"VERIF_REPO": wt, "VERIF_REPLAY_DIR": os.path.join(base, "rp"), "VERIF_EVIDENCE_DIR": os.path.join(base, "ev"),
                                    "VERIF_MAX_REPORT": "2", "VERIF_STOP_EARLY": "1", "VERIF_SEED": bs})
                        q = subprocess.run([sys.executable, os.path.join(core.VERIF, "sim", "cli.py"), prop, "quick"], env=env,
                                           capture_output=True, text=True, timeout=2400, cwd=core.VERIF)
                        cls = [ln.strip().split(" err=")[0] for ln in q.stdout.splitlines() if ln.strip().startswith("class=")]
                        row["retries"]["VERIF_SEED=" + bs] = {"exit": q.returncode, "classes": cls[:2]}
                        if q.returncode == 1:
                            break
                if expect_quiet:
                    # outside the properties as stated (DESIGN 12.7): the check has to stay quiet, like on a benign change
                    row["status"] = "quiet-as-expected" if all(c["exit"] == 0 for c in row["checks"].values()) else "unexpected-alarm"
                else:
                    row["status"] = "caught" if all(c["exit"] == 1 for c in row["checks"].values()) else (
                        "caught-in-part" if any(c["exit"] == 1 for c in row["checks"].values()) else (
                            "caught-under-another-base-seed" if any(c["exit"] == 1 for c in row.get("retries", {}).values()) else "missed"))
                results.append(row)
                print("%s %-4s %s %s" % (sid, meta["property"], row["status"], {k: v["classes"][:1] for k, v in row["checks"].items()}), flush=True)
            finally:
                subprocess.run(["git", "-C", core.REPO, "worktree", "remove", "--force", wt], capture_output=True)
    finally:
        shutil.rmtree(base, ignore_errors=True)
        subprocess.run(["git", "-C", core.REPO, "worktree", "prune"], capture_output=True)
    evp = os.path.join(core.VERIF, "evidence", "selftest-seeded.json")
    if only and os.path.exists(evp):
        # a partial re-run (ids given on the command line) updates those rows of the last full run
        try:
            prev = json.load(open(evp)).get("results", [])
        except Exception:  # noqa
            prev = []
        done = {r["id"] for r in results}
        results = sorted([r for r in prev if r.get("id") not in done] + results, key=lambda r: r.get("id", ""))
    caught = sum(1 for r in results if r.get("status") == "caught")
    quiet = sum(1 for r in results if r.get("status") == "quiet-as-expected")
    retry = sum(1 for r in results if r.get("status") == "caught-under-another-base-seed")
    print("selftest-seeded: %d caught by every check expected to, %d caught under another base seed only, %d quiet as expected, of %d; wall=%.0fs" % (
        caught, retry, quiet, len(results), time.time() - t0))
    core.write_json(os.path.join(core.VERIF, "evidence", "selftest-seeded.json"),
                    {"results": results, "caught": caught, "caught_under_another_base_seed_only": retry, "quiet_as_expected": quiet,
                     "total": len(results)})
    return 0 if caught + quiet + retry == len(results) else 1


# Negative controls: changes under which every claimed property still holds. No check may raise an alarm on them.
BENIGN = [
    ("b01_error_type_changed", "geometry/utils.py",
     'raise NameError("wing_type option not understood.', 'raise ValueError("wing_type option not understood.',
     "an error is still raised; only its class changed"),
    ("b02_warning_category_changed", "utils/check_surface_dict.py",
     "                category=RuntimeWarning,", "                category=UserWarning,",
     "a warning naming the key is still issued"),
    ("b03_loads_zeroed_fully", "transfer/load_transfer.py",
     '        outputs["loads"][-1, :] = 0.0\n', '        outputs["loads"][:] = 0.0\n',
     "zeroes more than necessary"),
    ("b04_tighter_shipped_tolerance_more_sweeps", "integration/aerostruct_groups.py",
     'coupled.nonlinear_solver.options["maxiter"] = 100\n        coupled.nonlinear_solver.options["atol"] = 1e-7',
     'coupled.nonlinear_solver.options["maxiter"] = 200\n        coupled.nonlinear_solver.options["atol"] = 5e-8',
     "a different but still convergent solver setting"),
    ("b05_mesh_copied_in_taper", "geometry/geometry_mesh_transformations.py",
     '        mesh = self.options["mesh"]\n        symmetry = self.options["symmetry"]\n        taper_ratio = inputs["taper"][0]\n',
     '        mesh = self.options["mesh"].copy()\n        symmetry = self.options["symmetry"]\n        taper_ratio = inputs["taper"][0]\n',
     "defensive copy of the user's mesh"),
    ("b06_cache_attribute_renamed", "aerodynamics/mtx_rhs.py", "normals_n_3", "normals_work",
     "pure rename of an internal work array (all occurrences)"),
    ("b07_moment_partials_assigned_not_accumulated_first_surface", "functionals/moment_coefficient.py",
     '        partials["M", "cg"][:] = 0.0\n', '        partials["M", "cg"][:] = 0.0\n        partials["M", "cg"] *= 1.0\n',
     "no-op arithmetic on Jacobian storage"),
    ("b08_fem_refactor_every_time", "structures/fem.py",
     '        residuals["disp_aug"] = K.dot(outputs["disp_aug"]) - inputs["forces"]',
     '        self._lup = splu(K)\n        residuals["disp_aug"] = K.dot(outputs["disp_aug"]) - inputs["forces"]',
     "refactors more often than necessary"),
    ("b09_contour_writer_prints_more_digits", "mphys/surface_contours.py",
     '                            file_handle.write("%f " % (mesh[i, j, k]))',
     '                            file_handle.write("%.9f " % (mesh[i, j, k]))',
     "the solution file carries more digits of the mesh: live and fresh files still agree"),
]


def benign(argv):
    """Apply each negative control to a scratch copy and run all three quick checks: all must exit 0."""
    only = [a for a in argv if not a.startswith("-")]
    t0 = time.time()
    base = tempfile.mkdtemp(prefix="oasben-", dir="/dev/shm" if os.path.isdir("/dev/shm") else None)
    results = []
    try:
        for name, rel, old, new, note in BENIGN:
            if only and not any(o in name for o in only):
                continue
            root = os.path.join(base, name)
            os.makedirs(root)
            shutil.copytree(os.path.join(core.REPO, "openaerostruct"), os.path.join(root, "openaerostruct"),
                            ignore=shutil.ignore_patterns("__pycache__", "docs", "examples"))
            path = os.path.join(root, "openaerostruct", rel)
            src = open(path).read()
            if old not in src:
                results.append({"control": name, "status": "anchor-not-found"})
                continue
            src = src.replace(old, new) if name.startswith("b06") else src.replace(old, new, 1)
            open(path, "w").write(src)
            compile(src, path, "exec")
            row = {"control": name, "note": note, "checks": {}}
            for prop in ("C03", "C12", "C20"):
                env = dict(os.environ)
                env.update(core.required_env())
                env.pop("VERIF_REEXEC", None)
                env.update({"VERIF_REPO": root, "VERIF_REPLAY_DIR": os.path.join(root, "rp"), "VERIF_EVIDENCE_DIR": os.path.join(root, "ev")})
                q = subprocess.run([sys.executable, os.path.join(core.VERIF, "sim", "cli.py"), prop, "quick"], env=env,
                                   capture_output=True, text=True, timeout=2400, cwd=core.VERIF)
                cls = [ln.strip().split(" err=")[0] for ln in q.stdout.splitlines() if ln.strip().startswith("class=")]
                row["checks"][prop] = {"exit": q.returncode, "classes": cls[:2]}
            row["status"] = "quiet" if all(c["exit"] == 0 for c in row["checks"].values()) else "FALSE-ALARM"
            results.append(row)
            print("%-60s %s %s" % (name, row["status"], {k: v["exit"] for k, v in row["checks"].items()}), flush=True)
            shutil.rmtree(root, ignore_errors=True)
    finally:
        shutil.rmtree(base, ignore_errors=True)
    quiet = sum(1 for r in results if r.get("status") == "quiet")
    print("selftest-benign: %d/%d quiet, wall=%.0fs" % (quiet, len(results), time.time() - t0))
    core.write_json(os.path.join(core.VERIF, "evidence", "selftest-benign.json"), {"results": results, "quiet": quiet, "total": len(results)})
    return 0 if quiet == len(results) else 1
