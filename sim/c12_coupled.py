"""C12 - the coupled aerostructural state is a consistent, path-independent fixed point.

Four kinds of seeded case, one check:
  C  schedule-level simulation of the Gauss-Seidel exchange (SchedGS) with message loss/duplication/
     reordering, stalled and restarted nodes, relaxation knobs and aborts; safety + bounded liveness
  A  API-level histories: initial guesses, visiting order, aborts, crash-and-restart into another
     supported nonlinear/linear solver pair with the vectors as the only surviving state
  M  multipoint isolation: editing one flight point must not move the others; each point equals the
     single-point model at its own inputs
  S  stiffness limit: disp and CL - CL_rigid shrink as E, G grow
Every converged state is additionally checked with an independent re-wiring oracle (Layer B): one
round trip disp -> def_mesh -> aero -> loads -> disp through stand-alone OAS components connected by
the harness, not by AerostructPoint.setup.
"""
import io
import os
import json
import contextlib
import numpy as np

from . import core, zoo, obs, faults
from .core import HarnessError
from .c03_history import Reference, _quiet, DEFAULT_TIGHTEN

PROP = "C12"
TASK_TIMEOUT = 400
RECYCLE_WORKERS = True  # every case starts in a fork of the pristine parent; references / twins in pristine grandchildren

# |live - ref| <= RT * |ref|_inf + AT * (max |.| over outputs of the same component)
RT, AT = 1e-8, 1e-10  # solver pairs / guesses / schedules, same tightened NLBGS tolerance both sides
RT_XSOLVER, AT_XSOLVER = 1e-7, 1e-9  # across different nonlinear solvers (Newton's residual norm differs)
RT_ROUNDTRIP = 1e-7
RT_ISOL, AT_ISOL = 1e-9, 1e-11
ZERO_SCALE_UNIT = 1.0
NEWTON_ATOL = 5e-8  # the *other* flight point after editing one: one more warm sweep

AS_VARIANTS = [
    {"zoo": "Z8"},
    {"zoo": "Z8", "wave": True, "relief": True},
    {"zoo": "Z8", "pm": True},
    {"zoo": "Z8", "geo": True},
    {"zoo": "Z9"},
    {"zoo": "Z9", "same_shape": True},
    {"zoo": "Z9", "rotational": True},
    {"zoo": "Z10"},
    {"zoo": "Z10", "no_reserve": True},
    {"zoo": "Z11", "compressible": True},
    {"zoo": "Z11", "compressible": True, "rotational": True},
    {"zoo": "Z11", "ground": True},
    {"zoo": "Z12", "wingbox": False},
    {"zoo": "Z12", "wingbox": True},
    {"zoo": "Z15"},
    # flexible structures (E, G scaled down): slow coupling; without Aitken it may need more than maxiter sweeps, which
    # has to end in a loud AnalysisError (counted inconclusive), never in a silently unconverged state
    {"zoo": "Z8", "stiff": 0.12},
    {"zoo": "Z8", "stiff": 0.08},
]

NL_KINDS = ["nlbgs_aitken", "nlbgs", "newton"]
LIN_KINDS = ["direct", "lbgs", "krylov"]


# ------------------------------------------------------------------------------------------------
# solver plumbing (public plug-in point: group.nonlinear_solver / group.linear_solver after setup)
# ------------------------------------------------------------------------------------------------


def apply_solvers(model, nl, lin, atol):
    import openmdao.api as om

    for path in model.coupled:
        g = model.prob.model._get_subsystem(path)
        shipped = g.nonlinear_solver
        if nl == "nlbgs_aitken":
            s = shipped  # exactly what AerostructPoint.setup configured; only atol is tightened below
        elif nl == "nlbgs":
            # the shipped configuration with Aitken switched off: every other option is inherited from OAS
            s = om.NonlinearBlockGS(use_aitken=False)
            for k in ("maxiter", "rtol", "err_on_non_converge"):
                s.options[k] = shipped.options[k]
        elif nl == "newton":
            # OAS's own commented variant (NewtonSolver(solve_subsystems=True), maxiter 50); failing loudly is
            # the user's choice here because OpenMDAO's Newton default is silent
            s = om.NewtonSolver(solve_subsystems=True)
            s.options["maxiter"] = 50
            s.options["rtol"] = 1e-30
            s.options["err_on_non_converge"] = True
        else:
            raise HarnessError("nl %r" % nl)
        # Newton measures the true residual (K u - f, AIC*gamma - rhs), whose round-off floor is 4e-9..1.3e-8
        # on these models; NLBGS measures the change of the outputs per sweep (floor 2e-10..1.4e-9)
        s.options["atol"] = solver_atol(nl, atol)
        s.options["iprint"] = -1
        if s is not shipped:
            g.nonlinear_solver = s
        if lin == "direct":
            g.linear_solver = om.DirectSolver(assemble_jac=True)
        elif lin == "lbgs":
            g.linear_solver = om.LinearBlockGS(maxiter=200, atol=1e-14, rtol=1e-14, iprint=-1)
        elif lin == "krylov":
            ks = om.ScipyKrylov(maxiter=200, atol=1e-14, rtol=1e-14, iprint=-1)
            ks.precon = om.LinearRunOnce()
            g.linear_solver = ks
        else:
            raise HarnessError("lin %r" % lin)


def solver_atol(nl, base):
    """Tightened absolute tolerance per nonlinear solver. With Aitken relaxation ||delta outputs|| reaches
    2e-10..1.4e-9, so 5e-9 is attainable. Plain NLBGS can lock into a period-2 round-off cycle at
    ~1.2e-8 (observed: Z8, warm start; shipped atol 1e-7 is above it), and Newton's true-residual floor is
    4e-9..1.3e-8: both get 5e-8, still 2x tighter than shipped."""
    if nl == "nlbgs_aitken":
        return base
    return max(base, NEWTON_ATOL)


def state_tol(nl):
    return (RT, AT) if nl == "nlbgs_aitken" else (RT_XSOLVER, AT_XSOLVER)


def shipped_solver_options(model):
    path = model.coupled[0]
    g = model.prob.model._get_subsystem(path)
    return {k: g.nonlinear_solver.options[k] for k in ("maxiter", "atol", "rtol", "err_on_non_converge", "use_aitken")}


# ------------------------------------------------------------------------------------------------
# Layer B: independent re-wiring oracle
# ------------------------------------------------------------------------------------------------


def round_trip(model, point_name):
    """One round trip through stand-alone components at the converged state of ``point_name``.
    Returns list of (what, surface, err, scale)."""
    import openmdao.api as om
    from openaerostruct.transfer.displacement_transfer_group import DisplacementTransferGroup
    from openaerostruct.aerodynamics.geometry import VLMGeometry
    from openaerostruct.aerodynamics.states import VLMStates
    from openaerostruct.aerodynamics.compressible_states import CompressibleVLMStates
    from openaerostruct.transfer.load_transfer import LoadTransfer
    from openaerostruct.structures.spatial_beam_states import SpatialBeamStates

    live = model.prob
    pt = live.model._get_subsystem(point_name)
    surfaces = pt.options["surfaces"]
    compressible = bool(pt.options["compressible"])
    rotational = bool(pt.options["rotational"])
    cp = point_name + ".coupled."
    p = om.Problem(reports=False)
    g = p.model
    prefix = {}
    for s in surfaces:
        n = s["name"]
        g.add_subsystem("dt_" + n, DisplacementTransferGroup(surface=s))
        g.add_subsystem("geom_" + n, VLMGeometry(surface=s))
        prefix["dt_" + n] = cp + n + ".def_mesh"
        prefix["geom_" + n] = cp + n + ".aero_geom"
    aero = CompressibleVLMStates(surfaces=surfaces, rotational=rotational) if compressible else VLMStates(surfaces=surfaces, rotational=rotational)
    g.add_subsystem("aero", aero)
    prefix["aero"] = cp + "aero_states"
    for s in surfaces:
        n = s["name"]
        g.add_subsystem("lt_" + n, LoadTransfer(surface=s))
        g.add_subsystem("ss_" + n, SpatialBeamStates(surface=s))
        prefix["lt_" + n] = cp + n + "_loads"
        prefix["ss_" + n] = cp + n + ".struct_states"
        g.connect("dt_%s.def_mesh" % n, "geom_%s.def_mesh" % n)
        g.connect("dt_%s.def_mesh" % n, "aero.%s_def_mesh" % n)
        g.connect("geom_%s.normals" % n, "aero.%s_normals" % n)
        g.connect("dt_%s.def_mesh" % n, "lt_%s.def_mesh" % n)
        g.connect("aero.%s_sec_forces" % n, "lt_%s.sec_forces" % n)
        g.connect("lt_%s.loads" % n, "ss_%s.loads" % n)
    # every input of the stand-alone subsystems that the chain above does not feed is supplied by an
    # IndepVarComp holding the value (and units) the same input has in the live model
    chained = set()
    for s in surfaces:
        n = s["name"]
        chained |= {("geom_" + n, "def_mesh"), ("aero", n + "_def_mesh"), ("aero", n + "_normals"),
                    ("lt_" + n, "def_mesh"), ("lt_" + n, "sec_forces"), ("ss_" + n, "loads")}
    ivc = om.IndepVarComp()
    n_src = 0
    live_in = live.model._inputs
    for mine, theirs in prefix.items():
        sub = live.model._get_subsystem(theirs)
        if sub is None:
            raise HarnessError("round-trip oracle: live subsystem %s not found" % theirs)
        conns = live.model._conn_global_abs_in2out
        for prom, abs_list in sub._resolver.prom2abs_iter("input"):
            if (mine, prom) in chained:
                continue
            a0 = abs_list[0]
            if conns.get(a0, "").startswith(theirs + "."):
                continue  # fed from inside the subsystem itself
            meta = live.model._var_allprocs_abs2meta["input"][a0]
            val = np.array(live_in._abs_get_val(a0, flat=False), dtype=float)
            oname = "%s__%s" % (mine, prom.replace(".", "__"))
            ivc.add_output(oname, val=val, units=meta.get("units"))
            g.connect("src." + oname, "%s.%s" % (mine, prom))
            n_src += 1
    g.add_subsystem("src", ivc)
    with _quiet():
        p.setup()
        p.set_solver_print(-1)
    with _quiet():
        p.run_model()
    out = []
    lo = live.model._outputs

    def cmp(what, n, mine, theirs):
        a = np.asarray(p.get_val(mine), dtype=float).ravel()
        b = np.asarray(live.get_val(theirs), dtype=float).ravel()
        ok, err, scale = obs.cmp_arrays(a, b, RT_ROUNDTRIP, 0.0)
        out.append((what, n, err, scale, ok))

    for s in surfaces:
        n = s["name"]
        cmp("def_mesh", n, "dt_%s.def_mesh" % n, cp + n + ".def_mesh")
        cmp("loads", n, "lt_%s.loads" % n, cp + n + "_loads.loads")
        cmp("disp", n, "ss_%s.disp" % n, cp + n + ".disp")
    return out


def conservation(model, point_name):
    """Independent physical identity at the converged state, from public outputs only: the nodal loads the
    structure receives carry the same total force and the same total moment (about the origin) as the panel
    forces acting at the quarter-chord points of the *deformed* mesh:
        sum_n F_n = sum_p f_p ;  sum_n [(x_n + u_n) x F_n + M_n] = sum_p a_p x f_p
    with x_n the structural nodes, u_n their converged translations, a_p the panel aerodynamic centres. No
    OpenAeroStruct transfer code is used on the right-hand side, so a transfer that is consistently wrong
    (every solver and path agreeing on it) is still seen."""
    live = model.prob
    pt = live.model._get_subsystem(point_name)
    cp = point_name + ".coupled."
    out = []
    for s in pt.options["surfaces"]:
        n = s["name"]
        mesh = np.asarray(live.get_val(cp + n + ".def_mesh"), dtype=float)
        f = np.asarray(live.get_val(cp + "aero_states." + n + "_sec_forces"), dtype=float)
        loads = np.asarray(live.get_val(cp + n + "_loads.loads"), dtype=float)
        nodes = np.asarray(live.get_val(cp + n + ".nodes"), dtype=float)
        disp = np.asarray(live.get_val(cp + n + ".disp"), dtype=float)
        a = 0.5 * (0.75 * mesh[:-1, :-1, :] + 0.25 * mesh[1:, :-1, :]) + 0.5 * (0.75 * mesh[:-1, 1:, :] + 0.25 * mesh[1:, 1:, :])
        F_aero = f.reshape(-1, 3).sum(axis=0)
        M_aero = np.cross(a.reshape(-1, 3), f.reshape(-1, 3)).sum(axis=0)
        x = nodes + disp[:, :3]
        F_str = loads[:, :3].sum(axis=0)
        M_str = np.cross(x, loads[:, :3]).sum(axis=0) + loads[:, 3:].sum(axis=0)
        fs = float(np.sum(np.abs(f))) + 1e-300
        ms = float(np.sum(np.abs(np.cross(a.reshape(-1, 3), f.reshape(-1, 3))))) + 1e-300
        ef = float(np.max(np.abs(F_str - F_aero)))
        em = float(np.max(np.abs(M_str - M_aero)))
        out.append(("total_force", n, ef, fs, ef <= 1e-9 * fs))
        out.append(("total_moment", n, em, ms, em <= 1e-8 * ms))
    return out


# ------------------------------------------------------------------------------------------------
# generation
# ------------------------------------------------------------------------------------------------


def _draw_point(model, rng, nprng, p_change=0.6):
    pt = {}
    for inp in model.inputs:
        pt[inp.name] = inp.draw(nprng, rng) if rng.random() < p_change else inp.nom.copy()
    return pt


def _jsonable_point(pt):
    return {k: np.asarray(v).tolist() for k, v in pt.items()}


def generate(seed, tier, opts):
    return core.in_child(_generate, seed, tier, opts)


def _generate(seed, tier, opts):
    rng, nprng = core.rngs(seed)
    kinds = opts.get("kinds") or ["C", "C", "C", "A", "A", "M", "S"]
    kind = rng.choice(kinds)
    case = {"property": PROP, "seed": seed, "kind": kind, "tighten": dict(DEFAULT_TIGHTEN)}
    if kind == "M":
        if rng.random() < 0.3:
            spec = {"zoo": "Z15", "npts": 2}
        else:
            spec = {"zoo": "Z12", "wingbox": rng.random() < 0.4, "npts": rng.choice([2, 2, 3])}
    elif kind == "S":
        spec = dict(rng.choice([{"zoo": "Z8"}, {"zoo": "Z8"}, {"zoo": "Z9"}, {"zoo": "Z10"}, {"zoo": "Z11", "compressible": True},
                                {"zoo": "Z11", "ground": True}]))
    else:
        spec = dict(rng.choice(AS_VARIANTS))
    spec["mode"] = "auto"
    if rng.random() < 0.3:
        spec["surf_opts"] = dict(rng.choice(zoo.SURF_OPT_CHOICES))
    if spec["zoo"] == "Z10" or (spec["zoo"] == "Z12" and spec.get("wingbox")):
        spec["ny"] = rng.choice([5, 7])
    elif spec["zoo"] == "Z9":
        spec["ny"] = rng.choice([3, 5, 7])
        spec["nx"] = rng.choice([2, 3])
    else:
        spec["ny"] = rng.choice([5, 7])
        spec["nx"] = rng.choice([2, 2, 3])
    case["spec"] = spec
    model = zoo.build(spec)
    if kind == "C":
        case["point"] = _jsonable_point(_draw_point(model, rng, nprng))
        g = model.prob.model._get_subsystem(model.coupled[0])
        nodes = [s.system.name for s in g._subsystems_allprocs.values()]
        case["nodes"] = nodes
        case["use_aitken"] = rng.random() < 0.7
        nf = rng.randint(2, 8) if tier != "thorough" else rng.choice([rng.randint(2, 8), rng.randint(6, 20)])
        pfault = rng.uniform(0.2, 0.6)
        enabled = [a for a in faults.SCHED_ACTIONS[1:] if rng.random() < 0.75] or ["stale"]
        sched = []
        abort_used = False
        for _ in range(nf):
            order = list(nodes)
            if rng.random() < 0.4:
                rng.shuffle(order)
            actions = {}
            for n in nodes:
                if rng.random() < pfault:
                    actions[n] = rng.choice(enabled)
            sw = {"order": order, "actions": actions, "relax": None, "abort": None}
            if rng.random() < 0.2:
                sw["relax"] = round(rng.uniform(0.3, 1.0), 3)
            if not abort_used and rng.random() < 0.06:
                sw["abort"] = rng.choice(nodes)
                abort_used = True
            sched.append(sw)
        case["schedule"] = sched
        # a second point visited afterwards with the same (now exhausted) schedule object: warm start
        if rng.random() < 0.35:
            from .c03_history import draw_point

            case["then_point"] = _jsonable_point(draw_point(model, [_to_point(case["point"])], rng, nprng))
        else:
            case["then_point"] = None
    elif kind == "A":
        npts = rng.randint(2, 3)
        from .c03_history import draw_point

        pts = []
        for _ in range(npts):
            pts.append(draw_point(model, pts, rng, nprng))
        with_special = [i for i in model.inputs if i.special]
        sweep = None
        if with_special and rng.random() < 0.35:
            # special-value sweep: one base point, and for every input that has exact special values (zero thrust, zero
            # body rates, zero sideslip, load factor 1, empty tanks ...) the same point with that one input on a special
            # value; visited base, variant, base, variant ... - the discrete branches of the model are entered and left
            # with everything else unchanged, which is where "previously analysed design point" defects live
            base = pts[0]
            for inp in with_special:
                if any(np.all(base[inp.name] == float(sv)) for sv in inp.special):
                    base[inp.name] = inp.nom.copy() if not any(np.all(inp.nom == float(sv)) for sv in inp.special) else base[inp.name]
            pts = [base]
            for inp in rng.sample(with_special, min(len(with_special), 5)):
                q = {k: np.array(v, dtype=float, copy=True) for k, v in base.items()}
                q[inp.name] = np.full(inp.nom.shape, float(rng.choice(inp.special)))
                pts.append(q)
            npts = len(pts)
            sweep = []
            for i in range(1, npts):
                sweep += [i, 0]
        case["points"] = [_jsonable_point(p) for p in pts]
        case["solver"] = [rng.choice(NL_KINDS), rng.choice(LIN_KINDS)] if rng.random() < 0.6 else ["nlbgs_aitken", "direct"]
        # visits: set a design point, (spoil the guess), (abort), converge, (crash-restart into another
        # solver pair and converge again)
        ops = []
        prev = None
        nvis = rng.randint(2, 5) if tier != "thorough" else rng.randint(2, 9)
        if sweep is not None:
            nvis = 1 + len(sweep)
        for v in range(nvis):
            cands = [i for i in range(npts) if i != prev] or [0]
            k = rng.choice(cands) if rng.random() < 0.8 else rng.randrange(npts)
            if sweep is not None:
                k = 0 if v == 0 else sweep[v - 1]
            prev = k
            ops.append({"op": "set_point", "k": k})
            if rng.random() < 0.45:
                ops.append({"op": "guess", "kind": rng.choice(["zeros", "initial", "scale", "donor", "noise"]),
                            "factor": round(rng.choice([rng.uniform(0.1, 1.0), rng.uniform(1.0, 10.0)]), 3),
                            "donor": rng.randrange(npts), "nseed": rng.randrange(10**6)})
            if v > 0 and rng.random() < 0.3:
                if rng.random() < 0.4:
                    ops.append({"op": "starve", "maxiter": rng.randint(2, 5)})
                else:
                    ops.append({"op": "abort", "frac": round(rng.uniform(0.05, 0.95), 4)})
            ops.append({"op": "run_model"})
            if rng.random() < 0.3:
                ops.append({"op": "restart_with", "nl": rng.choice(NL_KINDS), "lin": rng.choice(LIN_KINDS)})
                ops.append({"op": "run_model"})
        case["ops"] = ops
    elif kind == "M":
        npts = spec["npts"]
        per_point = model.notes["per_point"]
        base = {i.name: i.nom.copy() for i in model.inputs}
        case["base"] = _jsonable_point(base)
        edits = []
        for _ in range(rng.randint(2, 5)):
            i = rng.randrange(npts)
            var = rng.choice(["alpha", "rho", "v", "load_factor"])
            if spec["zoo"] == "Z15" and rng.random() < 0.4:
                var = rng.choice(["twist_cp_%d" % i, "thickness_cp_%d" % i])  # morph one point's own geometry
            fac = round(rng.uniform(0.85, 1.15), 4)
            edits.append({"point": i, "var": var, "factor": fac,
                          "abort_frac": round(rng.uniform(0.05, 0.95), 3) if rng.random() < 0.25 else None})
        case["edits"] = edits
        case["order"] = rng.sample(range(len(edits)), len(edits))
    elif kind == "S":
        case["point"] = _jsonable_point(_draw_point(model, rng, nprng, 0.4))
        case["mults"] = [1.0, 1e2, 1e4, 1e6]
    return case


# ------------------------------------------------------------------------------------------------
# execution
# ------------------------------------------------------------------------------------------------


def vclass(v):
    return (v["cls"], v["where"])


RT_RESIDUAL = 1e-3


def residual_consistency(model):
    """solve_nonlinear and apply_nonlinear of the implicit components (FEM, SolveMatrix) have to describe the same
    equations: at a state converged by the shipped (sweep-based) solver, which never calls apply_nonlinear, the residual
    that Newton or a Krylov solve would see must vanish. Scale: the residual change produced by a 1 % error of the
    component's own state; allowed RT_RESIDUAL of it (a state error of 1e-5 relative - far above any solver tolerance
    used here, far below anything a wrong equation produces). Non-perturbing: states are restored and the residual
    vector is recomputed. Returns list of (name, err, scale, ok)."""
    from openmdao.core.implicitcomponent import ImplicitComponent

    prob = model.prob
    comps = [c for c in obs.components(prob) if isinstance(c, ImplicitComponent) and obs.is_oas(c)]
    names = [n for c in comps for n in c._var_abs2meta["output"]]
    if not names:
        return []
    res, outs = prob.model._residuals, prob.model._outputs
    with _quiet():
        prob.model.run_apply_nonlinear()
    r0 = {n: np.array(res._abs_get_val(n, flat=True), dtype=float, copy=True) for n in names}
    saved = {n: np.array(outs._abs_get_val(n, flat=True), copy=True) for n in names}
    try:
        for n in names:
            outs._abs_get_val(n, flat=True)[:] = saved[n] * 1.01
        with _quiet():
            prob.model.run_apply_nonlinear()
        r1 = {n: np.array(res._abs_get_val(n, flat=True), dtype=float, copy=True) for n in names}
    finally:
        for n in names:
            outs._abs_get_val(n, flat=True)[:] = saved[n]
        with _quiet():
            prob.model.run_apply_nonlinear()
    out = []
    for n in names:
        if not r0[n].size or not np.all(np.isfinite(saved[n])):
            continue
        scale = float(np.max(np.abs(r1[n] - r0[n])))
        err = float(np.max(np.abs(r0[n])))
        ok = bool(np.isfinite(err) and np.isfinite(scale) and err <= RT_RESIDUAL * scale)
        out.append((n, err, scale, ok))
    return out


def _cmp_outputs(live, ref, rt, at, restrict=None, rename=None):
    cs = obs.component_scale(ref)
    bad = []
    worst = 0.0
    for k, rv in ref.items():
        lk = rename(k) if rename else k
        if restrict and not restrict(k):
            continue
        if lk not in live:
            continue
        csk = cs.get(k.rsplit(".", 1)[0], 0.0)
        # a component whose reference outputs are all exactly zero has no scale of its own (the constant zero angles of
        # the Prandtl-Glauert frame sit in an IndepVarComp *inside* the coupled group; Newton treats them as states and
        # its LU leaves 1e-22 .. 2e-16 degrees there, round-off of the *other* states' magnitude): such a component is
        # compared on the scale of one unit of its variables
        atol = at * (csk if csk > 0.0 else ZERO_SCALE_UNIT)
        ok, err, scale = obs.cmp_arrays(live[lk], rv, rt, atol)
        if not ok:
            bad.append((k, err, scale))
        else:
            allowed = rt * scale + atol
            if allowed > 0:
                worst = max(worst, err / allowed)
    return bad, worst


def _where(prob, key):
    path = key.rsplit(".", 1)[0]
    c = prob.model._get_subsystem(path)
    return "%s:%s" % (type(c).__name__ if c is not None else "?", key.rsplit(".", 1)[-1])


def execute(case, stop_at_first=True, collect=True, known=None):
    import openmdao.api as om

    kind = case["kind"]
    spec = case["spec"]
    tighten = case.get("tighten", DEFAULT_TIGHTEN)
    log = core.EventLog(keep=collect)
    res = {"seed": case.get("seed"), "kind": kind, "spec": spec, "violations": [], "known": [], "probes": {},
           "fault_fired": {}, "logical_steps": 0, "inconclusive": {}, "margin": 0.0, "schedule_hash": None,
           "sweeps": 0}
    known = known if known is not None else core.load_known_findings()

    def probe(n, k=1):
        res["probes"][n] = res["probes"].get(n, 0) + k

    def violation(cls, where, err, scale, extra=None):
        v = {"cls": cls, "where": where, "err": err, "scale": scale, "needs": [kind]}
        if extra:
            v.update(extra)
        k = core.match_known(PROP, v, known)
        if k is not None:
            v["known_id"] = k.get("id")
            res["known"].append(v)
        else:
            res["violations"].append(v)

    def check_state(model, ref_out, label, rt=RT, at=AT):
        live = obs.read_outputs(model.prob)
        nf = obs.all_finite(live)
        if nf and np.all(np.isfinite(ref_out.get(nf, np.array([np.nan])))):
            violation("nonfinite", _where(model.prob, nf), float("inf"), 0.0, {"after": label})
            return False
        bad, worst = _cmp_outputs(live, ref_out, rt, at)
        res["margin"] = max(res["margin"], worst)
        for key, err, scale in bad[:2]:
            violation("state", _where(model.prob, key), err, scale, {"after": label, "key": key})
        return not bad

    def check_round_trip(model, label):
        for path in model.coupled:
            pn = path.rsplit(".", 1)[0]
            for what, n, err, scale, ok in round_trip(model, pn):
                probe("round_trip_checked")
                if scale > 0:
                    res["margin"] = max(res["margin"], err / (RT_ROUNDTRIP * scale))
                if not ok:
                    violation("roundtrip", "%s:%s" % (what, n), err, scale, {"after": label})
            if zoo.is_wind_off(getattr(model, "_cur_point", None)):
                continue  # no aerodynamic force to balance
            for n, err, scale, ok in (residual_consistency(model) if path == model.coupled[0] else []):
                probe("residual_consistency_checked")
                if scale > 0:
                    res["margin_residual"] = max(res.get("margin_residual", 0.0), err / (RT_RESIDUAL * scale))
                if not ok:
                    violation("residual", _where(model.prob, n), err, scale, {"after": label})
            for what, n, err, scale, ok in conservation(model, pn):
                probe("conservation_checked")
                if not ok:
                    violation("conservation", "%s:%s" % (what, n), err, scale, {"after": label})

    ref_cache = {}
    server = core.PristineServer() if os.environ.get("VERIF_INPROC_REF") != "1" else None  # before anything is built here
    res["_server"] = server

    def ref_outputs(spec_, point_):
        key = core.digest([spec_, point_])
        if key not in ref_cache:
            r = Reference(spec_, tighten, server=server)
            ref_cache[key] = r.get("p", point_, "out")["out"]
        return ref_cache[key]

    try:
        if kind == "C":
            _exec_schedule(case, res, log, probe, violation, check_state, check_round_trip, ref_outputs)
        elif kind == "A":
            _exec_api(case, res, log, probe, violation, check_state, check_round_trip, ref_outputs)
        elif kind == "M":
            _exec_multipoint(case, res, log, probe, violation, check_state, check_round_trip, ref_outputs)
        elif kind == "S":
            _exec_stiffness(case, res, log, probe, violation, check_state, check_round_trip, ref_outputs)
        else:
            raise HarnessError("kind %r" % kind)
    except HarnessError:
        raise
    finally:
        res.pop("_server", None)
        if server is not None:
            server.close()
    res["digest"] = log.hexdigest()
    res["log"] = log.lines if collect else []
    return res


def _twin_outputs(spec1, atol, pt1):
    """Single-point twin of one flight point, computed in a pristine grandchild."""
    m1 = zoo.build(spec1)
    zoo.tighten_coupled(m1, atol=atol)
    m1.set_point(pt1)
    st = _run(m1, {}, "single")
    if st != "ok":
        raise HarnessError("single-point twin did not converge")
    return obs.read_outputs(m1.prob)


def _to_point(p):
    return {k: np.array(v, dtype=float) for k, v in p.items()}


def _run(model, res, label, allow_inject=True):
    """run_model; returns 'ok' | 'abort' (injected) | 'nonconv' (solver's own AnalysisError)."""
    import openmdao.api as om

    try:
        with _quiet():
            model.prob.run_model()
        # a run that returns normally must have met the coupled solver's own criterion: OAS configures the
        # solver to raise otherwise (err_on_non_converge); stopping at maxiter without saying so hands the
        # caller a state that is not a fixed point
        for path in model.coupled:
            g = model.prob.model._get_subsystem(path)
            s = g.nonlinear_solver
            if s._iter_count >= s.options["maxiter"]:
                norm = float(g._residuals.get_norm())
                if not (norm <= s.options["atol"]):
                    res["last_exception"] = {"where": "coupled solver stopped at maxiter=%d with norm %.3g > atol %.3g, no error raised" % (
                        s.options["maxiter"], norm, s.options["atol"]), "type": "silent", "message": path}
                    return "silent_nonconv"
        return "ok"
    except om.AnalysisError as e:
        if "verif: injected" in str(e):
            return "abort"
        return "nonconv"
    except HarnessError:
        raise
    except Exception as e:  # noqa - a legal run must not raise anything else
        import traceback

        frames = []
        ee = e
        seen = set()
        while ee is not None and id(ee) not in seen:
            seen.add(id(ee))
            tb = traceback.extract_tb(ee.__traceback__)
            frames = [f for f in tb if "/openaerostruct/" in f.filename] or frames
            ee = ee.__cause__ or ee.__context__
        where = "%s:%s" % (os.path.basename(frames[-1].filename), frames[-1].name) if frames else type(e).__name__
        res["last_exception"] = {"where": where, "type": type(e).__name__, "message": str(e)[:300]}
        return "error"


def _exec_schedule(case, res, log, probe, violation, check_state, check_round_trip, ref_outputs):
    spec = case["spec"]
    model = zoo.build(spec)
    point = _to_point(case["point"])
    atol = case["tighten"]["atol"]
    counters = res["fault_fired"]
    with _quiet():
        model.prob.final_setup()
    initial = {n: np.array(v, copy=True) for n, v in model.prob.model._outputs._abs_item_iter(flat=True)}
    # swap in the scheduler at the documented plug-in point ("Change the solver settings here")
    import openmdao.api as om

    m2 = zoo.build(spec)
    solvers = []
    for path in m2.coupled:
        g = m2.prob.model._get_subsystem(path)
        shipped = g.nonlinear_solver
        cls = faults.make_sched_gs(case["schedule"], initial, counters)
        s = cls(use_aitken=bool(case.get("use_aitken", True)))
        for k in ("maxiter", "rtol", "err_on_non_converge"):
            s.options[k] = shipped.options[k]
        s.options["atol"] = solver_atol("nlbgs_aitken" if case.get("use_aitken", True) else "nlbgs", atol)
        s.options["iprint"] = -1
        g.nonlinear_solver = s
        solvers.append(s)
    model = m2
    model.set_point(point)
    ref = ref_outputs(spec, point)
    st = _run(model, res, "sched")
    tries = 0
    while st == "abort" and tries < 3:
        probe("abort_then_rerun")
        tries += 1
        st = _run(model, res, "sched-rerun")
    res["sweeps"] = sum(s._iter_count for s in solvers)
    res["logical_steps"] = res["sweeps"]
    sched_sig = [(tuple(sw["order"]), tuple(sorted(sw["actions"].items())), sw.get("relax"), sw.get("abort")) for sw in case["schedule"]]
    res["schedule_hash"] = core.digest([spec["zoo"], case.get("use_aitken"), sched_sig])
    log.add("sched", st, res["sweeps"], dict(sorted(res["fault_fired"].items())))
    if st == "error":
        ex = res.get("last_exception", {})
        if not case.get("use_aitken", True) and not _plain_nlbgs_converges(spec, point, atol):
            res["inconclusive"]["plain_nlbgs_not_convergent_here"] = 1
            return
        violation("exception", ex.get("where", "?"), float("inf"), 0.0, {"message": ex.get("message")})
        return
    if st == "silent_nonconv":
        violation("silent_nonconvergence", "run_model returned normally from a non-converged coupled solve", float("inf"), 0.0,
                  {"detail": res.get("last_exception", {}).get("where"), "use_aitken": case.get("use_aitken")})
        return
    if st == "nonconv":
        # bounded liveness: once faults stop, the shipped sweep must converge within OAS's own maxiter
        # (a multipoint model has one scheduler per point, all playing the same schedule)
        if not case.get("use_aitken", True) and not _plain_nlbgs_converges(spec, point, atol):
            # without Aitken relaxation the coupling at this point is not convergent within maxiter even
            # with no fault at all: the property only speaks about convergent couplings
            res["inconclusive"]["plain_nlbgs_not_convergent_here"] = 1
            return
        violation("liveness", "no convergence within maxiter clean sweeps after faults stopped", float("inf"), 0.0,
                  {"sweeps": res["sweeps"]})
        return
    for s in solvers:
        if s._pos < len(s._sched):
            probe("converged_before_schedule_exhausted")
    _node_probes(case, probe)
    rt_, at_ = state_tol("nlbgs_aitken" if case.get("use_aitken", True) else "nlbgs")
    ok = check_state(model, ref, "schedule", rt_, at_)
    log.add("state", ok, core.digest(obs.read_outputs(model.prob)) if False else "")
    check_round_trip(model, "schedule")
    if case.get("then_point"):
        p2 = _to_point(case["then_point"])
        model.set_point(p2)
        st = _run(model, res, "then")
        if st == "silent_nonconv":
            violation("silent_nonconvergence", "run_model returned normally from a non-converged coupled solve", float("inf"), 0.0,
                      {"detail": res.get("last_exception", {}).get("where"), "use_aitken": case.get("use_aitken")})
            return
        if st != "ok":
            if not case.get("use_aitken", True) and not _plain_nlbgs_converges(spec, p2, atol):
                res["inconclusive"]["plain_nlbgs_not_convergent_here"] = 1
                return
            violation("liveness", "warm-started solve at second point did not converge", float("inf"), 0.0)
            return
        probe("second_point_after_faulty_solve")
        check_state(model, ref_outputs(spec, p2), "then_point", rt_, at_)


def _state_nonfinite(model):
    """Name of a non-finite output inside a coupled group (the state proper), else None. Functionals outside it are
    legitimately 0/0 at a wind-off point."""
    for n, v in model.prob.model._outputs._abs_item_iter(flat=True):
        if any(n.startswith(p + ".") for p in model.coupled) and not np.all(np.isfinite(v)):
            return n
    return None


def _plain_nlbgs_converges(spec, point, atol):
    """True if fault-free plain NLBGS converges *comfortably* here (within half of OAS's maxiter). A coupling that
    needs 90 of its 100 sweeps without any fault is not one about which 'converges within maxiter once faults stop'
    can be asserted: the faulty sweeps themselves count against the budget (seen once in a 25-seed soak on the
    E,G x0.08 variant)."""
    m = zoo.build(spec)
    apply_solvers(m, "nlbgs", "direct", atol)
    m.set_point(point)
    if _run(m, {}, "plain") != "ok":
        return False
    for path in m.coupled:
        s = m.prob.model._get_subsystem(path).nonlinear_solver
        if s._iter_count > s.options["maxiter"] // 2:
            return False
    return True


def _node_probes(case, probe):
    nodes = case["nodes"]
    struct_nodes = [n for n in nodes if n != "aero_states" and not n.endswith("_loads")]
    prev_restart = False
    for sw in case["schedule"]:
        acts = sw["actions"]
        if any(acts.get(n) == "restart" for n in struct_nodes):
            probe("restart_struct_node")
            prev_restart = True
            if acts.get("aero_states") == "stale":
                probe("stale_aero_in_sweep_with_struct_restart")
        elif prev_restart and acts.get("aero_states") == "stale":
            probe("stale_aero_right_after_restart")
            prev_restart = False
        else:
            prev_restart = False
        if len(struct_nodes) >= 2:
            a = [acts.get(n, "run") for n in struct_nodes]
            if "skip" in a and any(x != "skip" for x in a):
                probe("surfaces_updated_in_different_sweeps")


def _exec_api(case, res, log, probe, violation, check_state, check_round_trip, ref_outputs):
    import openmdao.api as om

    spec = case["spec"]
    atol = case["tighten"]["atol"]
    points = [_to_point(p) for p in case["points"]]
    nl, lin = case["solver"]

    def build(nl_, lin_):
        m = zoo.build(spec)
        apply_solvers(m, nl_, lin_, atol)
        m.prob.final_setup()
        return m

    model = build(nl, lin)
    initial = obs.read_outputs(model.prob)
    guess_names = faults.cycle_and_state_vars(model)
    cur = None
    store = {}
    last_calls = None
    solver_sig = [(nl, lin)]
    for opi, op in enumerate(case["ops"]):
        k = op["op"]
        if k == "set_point":
            cur = op["k"] % len(points)
            model.set_point(points[cur])
            log.add("set_point", cur)
        elif k == "run_model":
            if cur is None:
                continue
            with faults.AbortInjector(model.prob, at=None) as inj:
                st = _run(model, res, "run")
            last_calls = inj.count
            res["logical_steps"] += inj.count
            log.add("run_model", cur, st, nl, lin)
            if st == "error":
                ex = res.get("last_exception", {})
                if nl != "nlbgs_aitken":
                    # a non-shipped solver that diverges (NaN -> ValueError from lu_factor) fails loudly: the coupling
                    # is not convergent for that solver here - inconclusive, like its AnalysisError
                    res["inconclusive"]["diverged_%s" % nl] = res["inconclusive"].get("diverged_%s" % nl, 0) + 1
                    model = build(nl, lin)
                    model.set_point(points[cur])
                    guess_names = faults.cycle_and_state_vars(model)
                    store.clear()
                    continue
                violation("exception", ex.get("where", "?"), float("inf"), 0.0, {"op_index": opi, "nl": nl, "lin": lin, "message": ex.get("message")})
                return
            if st == "silent_nonconv":
                violation("silent_nonconvergence", "run_model returned normally from a non-converged coupled solve", float("inf"), 0.0,
                          {"op_index": opi, "nl": nl, "lin": lin, "detail": res.get("last_exception", {}).get("where")})
                return
            if st == "nonconv":
                if nl == "nlbgs_aitken":
                    violation("liveness", "shipped NLBGS+Aitken did not converge from a bounded guess", float("inf"), 0.0,
                              {"op_index": opi, "lin": lin})
                    return
                # a non-shipped solver that does not converge raises loudly: inconclusive, not wrong. What it leaves
                # in the vectors is an arbitrary (possibly huge) iterate, not a bounded guess: start over from a new
                # Problem, as after a divergence (a 45-seed soak found the shipped solver handed the last iterate of a
                # failed Newton run on the E,G x0.08 variant)
                res["inconclusive"]["nonconv_%s" % nl] = res["inconclusive"].get("nonconv_%s" % nl, 0) + 1
                model = build(nl, lin)
                model.set_point(points[cur])
                guess_names = faults.cycle_and_state_vars(model)
                store.clear()
                continue
            rt, at = state_tol(nl)
            ok = check_state(model, ref_outputs(spec, points[cur]), "run_model[%s,%s]" % (nl, lin), rt, at)
            if res["violations"]:
                return
            check_round_trip(model, "run_model[%s,%s]" % (nl, lin))
            if res["violations"]:
                return
            store[cur] = obs.read_outputs(model.prob)
            probe("converged_%s_%s" % (nl, lin))
        elif k == "guess":
            if cur is None:
                continue
            _, nprng = core.rngs(op["nseed"])
            donor = store.get(op["donor"] % len(points))
            sk = op["kind"] if (op["kind"] != "donor" or donor is not None) else "scale"
            factor = min(op["factor"], 3.0)
            if spec.get("stiff", 1.0) < 1.0:
                # very flexible wing: the basin of attraction of the fixed-point iteration is small (15 % entry-wise
                # noise on the loads makes the shipped solver diverge to NaN at stiff=0.08); keep guesses mild
                factor = min(max(factor, 0.5), 1.5)
                if sk == "noise":
                    factor = 0.1 * factor
            if nl == "newton":
                # Newton evaluates residuals AT the guess (no clean sweep first), so the guess of the
                # geometric cycle variables (def_mesh, normals, ...) must itself be a valid mesh
                if sk in ("zeros", "noise"):
                    sk = "donor" if donor is not None else "initial"
                factor = min(max(factor, 0.5), 2.0)
                if sk == "scale" and cur not in store:
                    sk = "initial"
            n = faults.scribble(model, sk, nprng, guess_names, initial, donor, factor)
            res["fault_fired"]["guess_" + sk] = res["fault_fired"].get("guess_" + sk, 0) + 1
            log.add("guess", sk, factor, n)
        elif k == "abort":
            if cur is None or not store:
                # no completed solve yet on this Problem: there is no in-flight state. OpenMDAO's solvers
                # swallow a child AnalysisError by default (reraise_child_analysiserror=False) and carry
                # on with the subsystem skipped; skipping def_mesh in the very first pass leaves the
                # declared all-zero mesh -> NaN. Same precondition as SchedGS's clean first sweep.
                continue
            total = last_calls or 60
            at_ = max(1, int(op["frac"] * total))
            with faults.AbortInjector(model.prob, at=at_) as inj:
                st = _run(model, res, "abort")
            res["logical_steps"] += inj.count
            if inj.fired:
                res["fault_fired"]["abort"] = res["fault_fired"].get("abort", 0) + 1
            log.add("abort", at_, st)
            nf = _state_nonfinite(model)
            if nf:
                # a spoiled guess followed by an aborted pass (the solver swallows the child's AnalysisError and
                # skips the rest of that subsystem) can leave NaN behind: the aborted evaluation's result is
                # discarded anyway, and NaN is not an admissible guess - do what a user has to do, reset the
                # guess (DESIGN 12.2 item 4; observed only under Newton after a scaled guess)
                # Resetting the guess is not enough under Newton with an iterative linear solver (its d_outputs
                # warm start keeps the NaN): the user has to rebuild the Problem, so that is what happens here.
                probe("abort_left_nonfinite_state_problem_rebuilt")
                model = build(nl, lin)
                model.set_point(points[cur])
                guess_names = faults.cycle_and_state_vars(model)
                store.clear()
        elif k == "starve":
            if cur is None or not store:
                continue
            saved = []
            for path in model.coupled:
                s_ = model.prob.model._get_subsystem(path).nonlinear_solver
                saved.append((s_, s_.options["maxiter"]))
                s_.options["maxiter"] = max(2, int(op["maxiter"]))
            st = _run(model, res, "starve")
            for s_, mi in saved:
                s_.options["maxiter"] = mi
            if st == "nonconv":
                res["fault_fired"]["starve"] = res["fault_fired"].get("starve", 0) + 1
            elif st == "silent_nonconv":
                violation("silent_nonconvergence", "run_model returned normally from a non-converged coupled solve", float("inf"), 0.0,
                          {"op_index": opi, "nl": nl, "lin": lin, "detail": res.get("last_exception", {}).get("where")})
                return
            log.add("starve", op["maxiter"], st)
            if _state_nonfinite(model):
                probe("abort_left_nonfinite_state_problem_rebuilt")
                model = build(nl, lin)
                model.set_point(points[cur])
                guess_names = faults.cycle_and_state_vars(model)
                store.clear()
        elif k == "restart_with":
            if cur is None:
                continue
            # crash-and-restart: a new Problem with another supported solver pair; the vectors are the
            # only state that survives
            old_out = obs.read_outputs(model.prob)
            nl, lin = op["nl"], op["lin"]
            model = build(nl, lin)
            model.set_point(points[cur])
            for name, val in old_out.items():
                try:
                    model.prob.set_val(name, val.reshape(np.shape(model.prob.get_val(name))))
                except Exception:
                    pass
            guess_names = faults.cycle_and_state_vars(model)
            res["fault_fired"]["restart_with"] = res["fault_fired"].get("restart_with", 0) + 1
            solver_sig.append((nl, lin))
            log.add("restart_with", nl, lin)
    res["schedule_hash"] = core.digest([spec["zoo"], solver_sig, [(o["op"], o.get("kind"), o.get("k")) for o in case["ops"]]])


def _exec_multipoint(case, res, log, probe, violation, check_state, check_round_trip, ref_outputs):
    spec = case["spec"]
    npts = spec["npts"]
    model = zoo.build(spec)
    zoo.tighten_coupled(model, atol=case["tighten"]["atol"])
    base = _to_point(case["base"])
    model.set_point(base)
    st = _run(model, res, "base")
    if st != "ok":
        raise HarnessError("multipoint base point did not converge")
    cur = {k: v.copy() for k, v in base.items()}
    edits = [case["edits"][i] for i in case["order"]]
    for e in edits:
        before = obs.read_outputs(model.prob)
        i = e["point"] % npts
        v = cur[e["var"]].copy()
        if e["var"] in model.notes["per_point"]:
            v[i] *= e["factor"]
        else:
            v = v * e["factor"]  # a per-point morphing variable (its name carries the point index)
        cur[e["var"]] = v
        model.set_point({e["var"]: v})
        if e.get("abort_frac") is not None:
            # the re-analysis is aborted somewhere (in any of the points) and then repeated
            with faults.AbortInjector(model.prob, at=max(1, int(e["abort_frac"] * 150 * npts))) as inj:
                st0 = _run(model, res, "edit-abort")
            if inj.fired:
                res["fault_fired"]["abort"] = res["fault_fired"].get("abort", 0) + 1
                probe("abort_during_multipoint_edit")
            if _state_nonfinite(model):
                raise HarnessError("NaN after abort in multipoint edit")
        st = _run(model, res, "edit")
        log.add("edit", i, e["var"], e["factor"], st)
        if st != "ok":
            violation("liveness", "multipoint model did not converge after editing one point", float("inf"), 0.0)
            return
        res["fault_fired"]["edit_point"] = res["fault_fired"].get("edit_point", 0) + 1
        after = obs.read_outputs(model.prob)
        moved = False
        for j in range(npts):
            pre = "AS_point_%d." % j
            sub_b = {k: x for k, x in before.items() if k.startswith(pre)}
            sub_a = {k: x for k, x in after.items() if k.startswith(pre)}
            bad, worst = _cmp_outputs(sub_a, sub_b, RT_ISOL, AT_ISOL)
            if j == i:
                moved = bool(bad)
                continue
            res["margin"] = max(res["margin"], worst)
            for key, err, scale in bad[:2]:
                violation("isolation", _where(model.prob, key).replace("AS_point_%d" % j, "AS_point_other"), err, scale,
                          {"edited": i, "observed": j, "var": e["var"], "key": key})
            probe("other_point_checked")
        if moved:
            probe("edited_point_moved")
        if res["violations"]:
            return
    # each point equals the single-point model at its own inputs
    per_point = model.notes["per_point"]
    final = obs.read_outputs(model.prob)
    for j in range(npts):
        s1 = dict(spec)
        s1["npts"] = 1
        s1["first"] = j  # the twin takes flight point j's non-varied per-point values (Mach, speed of sound)
        pt1 = {}
        import re

        for k, v in cur.items():
            mm = re.match(r"^(.*)_(\d+)$", k)
            if k in per_point:
                pt1[k] = np.array([v[j]])
            elif mm and mm.group(1) in ("twist_cp", "thickness_cp"):
                if int(mm.group(2)) == j:
                    pt1[mm.group(1) + "_0"] = v
            else:
                pt1[k] = v
        server = res.get("_server")
        if server is not None:
            single = server.call(_twin_outputs, s1, case["tighten"]["atol"], pt1)
        else:
            single = _twin_outputs(s1, case["tighten"]["atol"], pt1)
        ref = {k: x for k, x in single.items() if k.startswith("AS_point_0.")}
        bad, worst = _cmp_outputs(final, ref, RT, AT, rename=lambda k: k.replace("AS_point_0.", "AS_point_%d." % j, 1))
        res["margin"] = max(res["margin"], worst)
        probe("single_point_twin_checked")
        for key, err, scale in bad[:2]:
            violation("multipoint_vs_single", _where(model.prob, key), err, scale, {"point": j, "key": key})
    check_round_trip(model, "multipoint")
    res["schedule_hash"] = core.digest([spec, [(e["point"], e["var"]) for e in edits]])


def _exec_stiffness(case, res, log, probe, violation, check_state, check_round_trip, ref_outputs):
    spec = case["spec"]
    point = _to_point(case["point"])
    surf_names = ["wing", "tail"] if spec["zoo"] == "Z9" else ["wing"]

    def run(mlt):
        s = dict(spec)
        s["stiff"] = mlt
        m = zoo.build(s)
        zoo.tighten_coupled(m, atol=case["tighten"]["atol"])
        m.set_point(point)
        st = _run(m, res, "stiff")
        if st != "ok":
            return None, None, None
        disp = max(float(np.max(np.abs(np.asarray(m.prob.get_val("AS_point_0.coupled.%s.disp" % n))))) for n in surf_names)
        CL = float(np.ravel(m.prob.get_val("AS_point_0.CL"))[0])
        return m, disp, CL

    vals = []
    for mlt in case["mults"]:
        m, disp, CL = run(mlt)
        if m is None:
            violation("liveness", "no convergence at stiffness multiplier %g" % mlt, float("inf"), 0.0)
            return
        vals.append((mlt, disp, CL))
        if mlt == 1.0:
            check_round_trip(m, "stiff1")
    if spec["zoo"] == "Z8":
        # independent rigid twin: AeroPoint on the undeformed mesh with the same geometry and flow
        twin = {"zoo": "Z8R", "ny": spec.get("ny", 5), "nx": spec.get("nx", 2)}
        for k_ in ("surf_opts", "mesh_opts", "wave"):
            if spec.get(k_) is not None:
                twin[k_] = spec[k_]  # the twin shares every option of the surface, it only lacks the structure
        r = zoo.build(twin)
        r.set_point({k: v for k, v in point.items() if k in [i.name for i in r.inputs]})
        with _quiet():
            r.prob.run_model()
        CLr = float(np.ravel(r.prob.get_val("aero_point_0.CL"))[0])
        probe("rigid_twin_aeropoint")
    else:
        # the limit itself: the same model with E, G x 1e8
        m, _d, CLr = run(1e8)
        if m is None:
            raise HarnessError("very stiff reference did not converge")
        probe("rigid_limit_1e8")
    log.add("stiff", [(m_, "%.6e" % d, "%.9f" % c) for m_, d, c in vals], "%.9f" % CLr)
    res["fault_fired"]["stiffness_sweep"] = 1
    for i, ((m0, d0, c0), (m1_, d1, c1)) in enumerate(zip(vals[:-1], vals[1:])):
        probe("stiffness_pair_checked")
        if not d1 <= d0 / 10.0:
            violation("stiffness", "disp does not shrink >=10x per 100x stiffness", d1, d0, {"mults": [m0, m1_]})
        if zoo.is_wind_off(point):
            continue  # CL is 0/0 without dynamic pressure; the displacement limit above is the whole statement
        e0, e1 = abs(c0 - CLr), abs(c1 - CLr)
        # "tends to" is a statement about the limit: CL - CL_rigid = a/m + b/m^2 + ..., and at the baseline
        # stiffness (deflections of metres) the terms can nearly cancel (seen on the wingbox model: 1.5e-4 at m=1,
        # 4.1e-5 at m=100, 4e-7 at m=1e4). The >=10x-per-100x test is therefore applied from m=100 on.
        if i >= 1 and e0 > 1e-9 and not e1 <= e0 / 10.0 + 1e-9:
            violation("stiffness", "CL does not tend to the rigid CL", e1, e0, {"mults": [m0, m1_], "CL_rigid": CLr})
    e_first, e_last = abs(vals[0][2] - CLr), abs(vals[-1][2] - CLr)
    if not zoo.is_wind_off(point) and not e_last <= max(1e-3 * e_first, 1e-7 * abs(CLr)) + 1e-9:
        violation("stiffness", "CL does not tend to the rigid CL", e_last, e_first, {"mults": [vals[0][0], vals[-1][0]], "CL_rigid": CLr})
    res["schedule_hash"] = core.digest([spec, case["point"]])


# ------------------------------------------------------------------------------------------------
# shrinking
# ------------------------------------------------------------------------------------------------


def shrink(case, target):
    def fails(c):
        try:
            r = execute(c, collect=False)
        except HarnessError:
            return False
        return any(vclass(v) == tuple(target) for v in r["violations"])

    c = dict(case)
    if case["kind"] == "C":
        sched = core.ddmin(case["schedule"], lambda s: fails(dict(c, schedule=s)), max_tests=60) if len(case["schedule"]) > 1 else case["schedule"]
        if fails(dict(c, schedule=[])):
            sched = []
        c["schedule"] = sched
        # simplify each remaining sweep: drop individual actions
        for i, sw in enumerate(list(c["schedule"])):
            for n in list(sw["actions"]):
                trial = json.loads(json.dumps(c["schedule"]))
                del trial[i]["actions"][n]
                if fails(dict(c, schedule=trial)):
                    c["schedule"] = trial
        if c.get("then_point") and fails(dict(c, then_point=None)):
            c["then_point"] = None
    elif case["kind"] == "A":
        c["ops"] = core.ddmin(case["ops"], lambda o: fails(dict(c, ops=o)), max_tests=80)
    elif case["kind"] == "M":
        order = core.ddmin(case["order"], lambda o: fails(dict(c, order=o)), max_tests=40) if len(case["order"]) > 1 else case["order"]
        c["order"] = order
    return c


# ------------------------------------------------------------------------------------------------
# runner interface
# ------------------------------------------------------------------------------------------------

ASSUMPTIONS = [
    "reference fixed point = a freshly built Problem, shipped NonlinearBlockGS(Aitken)+DirectSolver, default start, same tightened atol",
    "supported solvers: NLBGS with/without Aitken, Newton(solve_subsystems=True); Direct, LinearBlockGS, ScipyKrylov preconditioned with LinearRunOnce (OAS's own commented variant); unpreconditioned Krylov excluded (DESIGN 5.1)",
    "a non-shipped solver that fails to converge raises AnalysisError (loud) and is counted as inconclusive, not as a violation",
    "initial guesses are bounded (scaling 0.1-10, <=15 % entry-wise noise) so that the deformed mesh stays non-degenerate",
    "SchedGS replaces only the Gauss-Seidel sweep loop; residual/convergence test, transfers and every subsystem are the real code",
    "exploration: a clean batch is evidence, not proof",
]


def compact(case, res):
    return {
        "seed": case["seed"], "kind": case["kind"], "zoo": case["spec"]["zoo"], "spec": case["spec"],
        "n_ops": len(case.get("ops") or case.get("schedule") or case.get("edits") or []),
        "violations": res["violations"], "known": res["known"], "probes": res["probes"],
        "fault_fired": res["fault_fired"], "logical_steps": res["logical_steps"], "sweeps": res["sweeps"],
        "inconclusive": res["inconclusive"], "margin": res["margin"], "margin_residual": res.get("margin_residual", 0.0),
        "schedule_hash": res["schedule_hash"],
        "digest": res["digest"],
        "sample": {k: case[k] for k in ("kind", "spec", "schedule", "ops", "solver", "edits", "order", "use_aitken") if k in case},
    }


def coverage(results, tier):
    probes, fired, kinds, zoos, inconc = {}, {}, {}, {}, {}
    distinct = set()
    sweeps = steps = 0
    margin = 0.0
    margin_res = 0.0
    for r in results:
        for k, v in r["probes"].items():
            probes[k] = probes.get(k, 0) + v
        for k, v in r["fault_fired"].items():
            fired[k] = fired.get(k, 0) + v
        for k, v in r["inconclusive"].items():
            inconc[k] = inconc.get(k, 0) + v
        kinds[r["kind"]] = kinds.get(r["kind"], 0) + 1
        zoos[r["zoo"]] = zoos.get(r["zoo"], 0) + 1
        sweeps += r["sweeps"]
        steps += r["logical_steps"]
        margin = max(margin, r["margin"])
        margin_res = max(margin_res, r.get("margin_residual", 0.0))
        nonrun = sum(v for k, v in r["fault_fired"].items() if k not in ("run", "clean_sweeps", "faulty_sweeps"))
        if r["schedule_hash"] and nonrun >= 1:
            distinct.add(r["schedule_hash"])
    return {
        "distinct_nontrivial": len(distinct),
        "rule": "one case = one seeded scenario of kind C (faulty Gauss-Seidel schedule of 2-8 sweeps over the coupled "
                "group's nodes), A (API history of guesses/aborts/solver restarts), M (multipoint edits) or S (stiffness "
                "sweep); distinct = distinct hash of (configuration, schedule / op sequence); non-trivial = at least one "
                "fault of a non-'run' kind actually fired",
        "samples": [r["sample"] for r in results[:3]] or [{}],
        "cases_by_kind": kinds,
        "configs_covered": zoos,
        "fault_counts_fired": fired,
        "probe_hits": probes,
        "inconclusive": inconc,
        "gauss_seidel_sweeps": sweeps,
        "logical_steps": steps,
        "margin_worst_ratio": margin,
        "margin_worst_ratio_residual_consistency": margin_res,
        "tolerances": {"RT": RT, "AT": AT, "RT_XSOLVER": RT_XSOLVER, "RT_ROUNDTRIP": RT_ROUNDTRIP, "RT_ISOL": RT_ISOL},
        "real_vs_stub": {
            "real": "all openaerostruct subsystems, OpenMDAO transfers, residual evaluation and convergence test, NewtonSolver, linear solvers",
            "stub": "the Gauss-Seidel sweep loop in kind-C cases (SchedGS._gs_iter); report/recorder output off",
        },
    }
