"""Fault injection through seams that already exist in OpenAeroStruct / OpenMDAO.

* AbortInjector: instance-level wrapping of compute / compute_partials / solve_nonlinear /
  apply_nonlinear / linearize on component *instances* (OpenMDAO calls ``self.compute`` etc., so the
  instance attribute wins); counts calls and raises ``om.AnalysisError`` at the chosen count.
* scribble: ``prob.set_val`` of finite garbage into implicit states / coupling-cycle variables.
* SchedGS: a ``NonlinearBlockGS`` subclass whose ``_gs_iter`` executes a seeded faulty schedule.
"""
import numpy as np

from . import obs

METHODS = ("compute", "compute_partials", "solve_nonlinear", "apply_nonlinear", "linearize")


class AbortInjector:
    """Counts calls of the wrapped methods on OAS components; raises AnalysisError at call #at."""

    def __init__(self, prob, at=None, only_oas=True):
        self.prob = prob
        self.at = at
        self.count = 0
        self.fired = None  # (count, pathname, method, coupled_iter)
        self.only_oas = only_oas
        self._wrapped = []
        self.trace = []

    def __enter__(self):
        import openmdao.api as om

        for c in obs.components(self.prob):
            if self.only_oas and not obs.is_oas(c):
                continue
            for m in METHODS:
                if m in c.__dict__:
                    continue
                orig = getattr(c, m, None)
                if orig is None or not callable(orig):
                    continue
                # only wrap methods the class really overrides (skip framework no-op defaults)
                base_impl = None
                for klass in type(c).__mro__:
                    if klass.__module__.startswith("openmdao"):
                        break
                    if m in klass.__dict__:
                        base_impl = klass
                        break
                if base_impl is None:
                    continue

                def make(orig=orig, c=c, m=m):
                    def wrapper(*a, **k):
                        self.count += 1
                        if self.at is not None and self.count == self.at and self.fired is None:
                            self.fired = (self.count, c.pathname, m)
                            raise om.AnalysisError("verif: injected abort at call %d (%s.%s)" % (self.count, c.pathname, m))
                        return orig(*a, **k)

                    return wrapper

                c.__dict__[m] = make()
                self._wrapped.append((c, m))
        return self

    def __exit__(self, *exc):
        for c, m in self._wrapped:
            c.__dict__.pop(m, None)
        self._wrapped = []
        return False


def cycle_and_state_vars(model):
    """Absolute names of outputs that are initial guesses: every output of systems inside a coupled
    group (the coupling cycle) and every output of an ImplicitComponent anywhere."""
    from openmdao.core.implicitcomponent import ImplicitComponent

    names = []
    prob = model.prob
    for c in obs.components(prob):
        inside = any(c.pathname.startswith(p + ".") for p in model.coupled)
        if inside or isinstance(c, ImplicitComponent):
            for n in c._var_abs2meta["output"]:
                names.append(n)
    return names


def scribble(model, kind, nprng, names, initial, donor=None, factor=1.0):
    """Write an initial guess of the given kind into ``names``. Returns number of variables written."""
    prob = model.prob
    outs = prob.model._outputs
    n = 0
    for name in names:
        cur = np.array(outs._abs_get_val(name, flat=True), dtype=float)
        if kind == "zeros":
            new = np.zeros_like(cur)
        elif kind == "initial":
            new = initial[name].copy()
        elif kind == "scale":
            new = cur * factor
        elif kind == "donor" and donor is not None:
            new = donor[name] * factor
        elif kind == "noise":
            # bounded, of physical magnitude: entry-wise noise of at most 15 % of the variable's scale
            # (un-smooth garbage of 100 %+ makes the fixed-point iteration itself diverge to NaN - an
            # inadmissible guess, not a property violation)
            s = np.max(np.abs(cur)) if cur.size else 0.0
            new = cur + 0.05 * min(factor, 3.0) * s * nprng.uniform(-1.0, 1.0, size=cur.shape)
        else:
            new = cur
        prob.set_val(name, new.reshape(np.shape(outs._abs_get_val(name, flat=False))))
        n += 1
    return n
