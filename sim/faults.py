"""Fault injection through seams that already exist in OpenAeroStruct / OpenMDAO.

* AbortInjector: instance-level wrapping of compute / compute_partials / solve_nonlinear /
  apply_nonlinear / linearize on component *instances* (OpenMDAO calls ``self.compute`` etc., so the
  instance attribute wins); counts calls and raises ``om.AnalysisError`` at the chosen count.
* scribble: ``prob.set_val`` of finite garbage into implicit states / coupling-cycle variables.
* SchedGS: a ``NonlinearBlockGS`` subclass whose ``_gs_iter`` executes a seeded faulty schedule.
"""
import numpy as np

from . import obs

METHODS = ("compute", "compute_partials", "solve_nonlinear", "apply_nonlinear", "linearize")


class AbortInjector:
    """Counts calls of the wrapped methods on OAS components; raises AnalysisError at call #at."""

    def __init__(self, prob, at=None, only_oas=True):
        self.prob = prob
        self.at = at
        self.count = 0
        self.fired = None  # (count, pathname, method, coupled_iter)
        self.only_oas = only_oas
        self._wrapped = []
        self.trace = []

    def __enter__(self):
        import openmdao.api as om

        for c in obs.components(self.prob):
            if self.only_oas and not obs.is_oas(c):
                continue
            for m in METHODS:
                if m in c.__dict__:
                    continue
                orig = getattr(c, m, None)
                if orig is None or not callable(orig):
                    continue
                # only wrap methods the class really overrides (skip framework no-op defaults)
                base_impl = None
                for klass in type(c).__mro__:
                    if klass.__module__.startswith("openmdao"):
                        break
                    if m in klass.__dict__:
                        base_impl = klass
                        break
                if base_impl is None:
                    continue

                def make(orig=orig, c=c, m=m):
                    def wrapper(*a, **k):
                        self.count += 1
                        if self.at is not None and self.count == self.at and self.fired is None:
                            self.fired = (self.count, c.pathname, m)
                            raise om.AnalysisError("verif: injected abort at call %d (%s.%s)" % (self.count, c.pathname, m))
                        return orig(*a, **k)

                    return wrapper

                c.__dict__[m] = make()
                self._wrapped.append((c, m))
        return self

    def __exit__(self, *exc):
        for c, m in self._wrapped:
            c.__dict__.pop(m, None)
        self._wrapped = []
        return False


def cycle_and_state_vars(model):
    """Absolute names of outputs that are initial guesses: every output of systems inside a coupled
    group (the coupling cycle) and every output of an ImplicitComponent anywhere."""
    from openmdao.core.implicitcomponent import ImplicitComponent

    names = []
    prob = model.prob
    for c in obs.components(prob):
        inside = any(c.pathname.startswith(p + ".") for p in model.coupled)
        if inside or isinstance(c, ImplicitComponent):
            for n in c._var_abs2meta["output"]:
                names.append(n)
    return names


def scribble(model, kind, nprng, names, initial, donor=None, factor=1.0):
    """Write an initial guess of the given kind into ``names``. Returns number of variables written."""
    prob = model.prob
    outs = prob.model._outputs
    n = 0
    for name in names:
        cur = np.array(outs._abs_get_val(name, flat=True), dtype=float)
        if kind == "zeros":
            new = np.zeros_like(cur)
        elif kind == "initial":
            new = initial[name].copy()
        elif kind == "scale":
            new = cur * factor
        elif kind == "donor" and donor is not None:
            new = donor[name] * factor
        elif kind == "noise":
            # bounded, of physical magnitude: entry-wise noise of at most 15 % of the variable's scale
            # (un-smooth garbage of 100 %+ makes the fixed-point iteration itself diverge to NaN - an
            # inadmissible guess, not a property violation)
            s = np.max(np.abs(cur)) if cur.size else 0.0
            new = cur + 0.05 * min(factor, 3.0) * s * nprng.uniform(-1.0, 1.0, size=cur.shape)
        else:
            new = cur
        prob.set_val(name, new.reshape(np.shape(outs._abs_get_val(name, flat=False))))
        n += 1
    return n


# ------------------------------------------------------------------------------------------------
# SchedGS: schedule-level simulation of the aerostructural Gauss-Seidel exchange
# ------------------------------------------------------------------------------------------------

SCHED_ACTIONS = ("run", "stale", "skip", "dup", "restart")


def make_sched_gs(schedule, initial_outputs, counters):
    """Return a NonlinearBlockGS subclass instance executing ``schedule`` (list of sweeps) before
    falling back to the shipped sweep.  A sweep = {"order": [node names], "actions": {node: action},
    "relax": theta or None, "abort": node or None}.  Sweep 1 of every solve is the clean one that
    OpenMDAO performs inside ``_run_apply`` (it does not go through ``_gs_iter``), so in-flight
    state exists before the first fault.  While faulty sweeps are being played the convergence test
    is disabled (a sweep in which every node is skipped has delta-outputs = 0, which the shipped
    criterion would mistake for convergence); once faults stop, the shipped criterion decides."""
    import openmdao.api as om

    class SchedGS(om.NonlinearBlockGS):
        SOLVER = "NL: NLBGS"

        def __init__(self, **kw):
            super().__init__(**kw)
            self._sched = list(schedule)
            self._pos = 0
            self._last_faulty = False
            self.clean_sweeps_after_faults = 0

        def _gs_iter(self):
            system = self._system()
            if self._pos >= len(self._sched):
                self._last_faulty = False
                self.clean_sweeps_after_faults += 1
                counters["clean_sweeps"] = counters.get("clean_sweeps", 0) + 1
                return super()._gs_iter()
            sw = self._sched[self._pos]
            self._pos += 1
            self._last_faulty = True
            counters["faulty_sweeps"] = counters.get("faulty_sweeps", 0) + 1
            subs = {s.name: s for s in system._subsystems_myproc}
            outputs = system._outputs
            snap = outputs.asarray(copy=True) if sw.get("relax") else None
            for name in sw["order"]:
                sub = subs[name]
                act = sw["actions"].get(name, "run")
                if sw.get("abort") == name:
                    counters["abort"] = counters.get("abort", 0) + 1
                    raise om.AnalysisError("verif: injected abort in sweep %d at node %s" % (self._pos, name))
                if act == "skip":
                    counters["skip"] = counters.get("skip", 0) + 1
                    continue
                if act == "restart":
                    counters["restart"] = counters.get("restart", 0) + 1
                    for vname in sub._outputs._abs_iter():
                        outputs._abs_get_val(vname, flat=True)[:] = initial_outputs[vname]
                if act == "stale":
                    counters["stale"] = counters.get("stale", 0) + 1
                else:
                    system._transfer("nonlinear", "fwd", name)
                sub._solve_nonlinear()
                if act == "dup":
                    counters["dup"] = counters.get("dup", 0) + 1
                    system._transfer("nonlinear", "fwd", name)
                    sub._solve_nonlinear()
                if act == "run":
                    counters["run"] = counters.get("run", 0) + 1
            if list(sw["order"]) != [s.name for s in system._subsystems_myproc]:
                counters["reorder"] = counters.get("reorder", 0) + 1
            if snap is not None:
                th = float(sw["relax"])
                cur = outputs.asarray(copy=True)
                outputs.set_val(snap + th * (cur - snap))
                counters["relax"] = counters.get("relax", 0) + 1

        def _iter_get_norm(self):
            n = super()._iter_get_norm()
            if self._last_faulty:
                return max(n, 1.0)
            return n

    return SchedGS
