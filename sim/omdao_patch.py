"""In-process neutralisation of one OpenMDAO 3.45.1 artefact (DESIGN.md §3.7).

``_CheckingJacobian._setup`` shallow-copies the component's ``_subjacs_info``; the scratch Jacobian
that ``check_partials`` fills with FD/CS estimates therefore shares every ``info['val']`` array with
the component's real Jacobian, and declared-constant blocks keep the estimate for the life of the
Problem. The cause is in site-packages/openmdao, not in /repo; the simulator makes the copy deep for
``val`` so the effect is not charged to OpenAeroStruct. Nothing on disk is touched.

Switch off with VERIF_NO_OMPATCH=1 (used by the control-model self-check, which must then
reproduce the leak).
"""
import os

_applied = False


def apply():
    global _applied
    if _applied or os.environ.get("VERIF_NO_OMPATCH") == "1":
        return
    from openmdao.jacobians import dictionary_jacobian as dj

    orig = dj._CheckingJacobian._setup
    if getattr(orig, "_verif_patched", False):
        _applied = True
        return

    def _setup(self, system):
        info = {}
        for key, meta in self._subjacs_info.items():
            m = meta.copy()
            v = m.get("val")
            if v is not None and hasattr(v, "copy"):
                m["val"] = v.copy()
            info[key] = m
        self._subjacs_info = info
        self._setup_index_maps(system)
        self._subjacs = self._get_subjacs(system)

    _setup._verif_patched = True
    dj._CheckingJacobian._setup = _setup
    _applied = True


def is_applied():
    return _applied
