"""In-process neutralisation of one OpenMDAO 3.45.1 artefact (DESIGN.md §3.7).

``_CheckingJacobian._setup`` shallow-copies the component's ``_subjacs_info``; the scratch Jacobian
that ``check_partials`` fills with FD/CS estimates therefore shares every ``info['val']`` array with
the component's real Jacobian, and declared-constant blocks keep the estimate for the life of the
Problem. The cause is in site-packages/openmdao, not in /repo; the simulator makes the copy deep for
``val`` so the effect is not charged to OpenAeroStruct. Nothing on disk is touched.

Second artefact (found by the C03 machine on its first batch, reproduced without OAS in ten lines):
a component that mixes approximated (``method="cs"|"fd"``) and analytic partials gets its list of
approximated columns filtered by the *relevance of the first compute_totals call* and cached
(``System._get_approx_subjac_keys``); a later ``compute_totals`` / ``run_linearize`` with other
of/wrt silently leaves the never-approximated columns at zero (d y/d a = 0 instead of 0.88 in the
control). ``RotateToWindFrame``, ``VortexMesh``, ``EvalVelMtx`` and the wingbox components declare
such partials, so OAS totals w.r.t. alpha are zero after a first ``compute_totals`` w.r.t. twist
only. The cause is in site-packages/openmdao; the simulator makes the approximation set-up ignore
relevance (all declared approximations are always computed).

Switch off with VERIF_NO_OMPATCH=1 (used by the control-model self-check, which must then
reproduce the leak).
"""
import os

_applied = False


def apply():
    global _applied
    if _applied or os.environ.get("VERIF_NO_OMPATCH") == "1":
        return
    from openmdao.jacobians import dictionary_jacobian as dj

    orig = dj._CheckingJacobian._setup
    if getattr(orig, "_verif_patched", False):
        _applied = True
        return

    def _setup(self, system):
        info = {}
        for key, meta in self._subjacs_info.items():
            m = meta.copy()
            v = m.get("val")
            if v is not None and hasattr(v, "copy"):
                m["val"] = v.copy()
            info[key] = m
        self._subjacs_info = info
        self._setup_index_maps(system)
        self._subjacs = self._get_subjacs(system)

    _setup._verif_patched = True
    dj._CheckingJacobian._setup = _setup

    from openmdao.core.system import System

    orig_keys = System._get_approx_subjac_keys

    def _get_approx_subjac_keys(self, use_relevance=True, initialize=False):
        return orig_keys(self, use_relevance=False, initialize=initialize)

    _get_approx_subjac_keys._verif_patched = True
    System._get_approx_subjac_keys = _get_approx_subjac_keys
    _applied = True


def is_applied():
    return _applied
