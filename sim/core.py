"""Simulator core: bootstrap (seams), PRNG plumbing, digests, worker pool, ddmin, evidence.

Everything a run decides comes from ``random.Random(run_seed)`` / ``numpy PCG64(run_seed)``.
Nothing here reads a wall clock in a decision or logging path (``time`` is used only for wall_s).
"""
import os
import sys
import json
import time
import hashlib
import random
import signal
import shutil
import tempfile
import traceback
import faulthandler
import multiprocessing as mp

VERIF = os.path.dirname(os.path.dirname(os.path.abspath(__file__)))
REPO = os.environ.get("VERIF_REPO", "/repo")
DEFAULT_SEED = 20261003

_BOOTSTRAPPED = False
_SCRATCH = None
_ORIG_CWD = os.getcwd()  # bootstrap() changes directory; relative VERIF_*_DIR values mean "relative to where I was started"


def _abs_dir(p):
    return p if os.path.isabs(p) else os.path.join(_ORIG_CWD, p)


class HarnessError(Exception):
    """Raised for failures of the machinery itself (never reported as a VIOLATION)."""


def required_env():
    """Environment every simulated run is executed under (one value per nondeterminism seam)."""
    return {
        "PYTHONHASHSEED": os.environ.get("VERIF_HASHSEED", "0"),
        "OPENBLAS_NUM_THREADS": os.environ.get("VERIF_BLAS_THREADS", "1"),
        "OMP_NUM_THREADS": os.environ.get("VERIF_BLAS_THREADS", "1"),
        "MKL_NUM_THREADS": os.environ.get("VERIF_BLAS_THREADS", "1"),
        "OPENMDAO_REPORTS": "0",
        "OPENMDAO_REQUIRE_MPI": "0",
        "OPENMDAO_USE_MPI": "0",
        "PYTHONDONTWRITEBYTECODE": "1",
    }


def reexec_if_needed():
    """PYTHONHASHSEED / BLAS threads are only honoured at interpreter start: re-exec once."""
    want = required_env()
    if all(os.environ.get(k) == v for k, v in want.items()):
        return
    if os.environ.get("VERIF_REEXEC") == "1":
        raise HarnessError("environment could not be pinned: %r" % {k: os.environ.get(k) for k in want})
    env = dict(os.environ)
    env.update(want)
    env["VERIF_REEXEC"] = "1"
    os.execve(sys.executable, [sys.executable] + sys.argv, env)


def bootstrap():
    """Pin the seams and import the tree under test from REPO (never from site-packages)."""
    global _BOOTSTRAPPED, _SCRATCH
    if _BOOTSTRAPPED:
        return
    for k, v in required_env().items():
        if k in ("PYTHONHASHSEED",):
            continue
        os.environ[k] = v
    if REPO in sys.path:
        sys.path.remove(REPO)
    sys.path.insert(0, REPO)
    base = os.environ.get("VERIF_SCRATCH_BASE") or ("/dev/shm" if os.path.isdir("/dev/shm") else tempfile.gettempdir())
    _sweep_stale_scratch(base)
    _SCRATCH = tempfile.mkdtemp(prefix="oasverif-", dir=base)
    os.chdir(_SCRATCH)
    import atexit

    atexit.register(_cleanup_scratch, os.getpid(), _SCRATCH)
    import warnings

    # Quiet, but without touching the warning *filters*: whether a warning is issued must stay exactly what the code
    # under test (and Python's defaults) make it - C20 asks "does the user get a warning" and a process-wide filter
    # installed by the harness would answer for the library.
    warnings.showwarning = lambda *a, **k: None
    import openaerostruct

    f = os.path.realpath(openaerostruct.__file__)
    if not f.startswith(os.path.realpath(REPO) + os.sep):
        raise HarnessError("openaerostruct imported from %s, not from %s" % (f, REPO))
    from . import omdao_patch

    omdao_patch.apply()
    import openmdao.api  # noqa: F401

    _BOOTSTRAPPED = True


def _sweep_stale_scratch(base, max_age_s=12 * 3600):
    """Scratch directories of runs that were killed (no atexit) are removed once they are clearly dead."""
    try:
        now = time.time()
        for name in os.listdir(base):
            if name.startswith("oasverif-"):
                p = os.path.join(base, name)
                try:
                    if now - os.path.getmtime(p) > max_age_s:
                        shutil.rmtree(p, ignore_errors=True)
                except OSError:
                    pass
    except OSError:
        pass


def _cleanup_scratch(pid, path):
    if os.getpid() == pid:
        shutil.rmtree(path, ignore_errors=True)


def scratch_dir():
    return _SCRATCH


# ----------------------------------------------------------------------------------------------
# seeds
# ----------------------------------------------------------------------------------------------


def base_seed():
    try:
        return int(os.environ.get("VERIF_SEED", DEFAULT_SEED))
    except ValueError:
        return DEFAULT_SEED


def run_seed(base, i):
    return (base % 10**9) * 10**6 + i


def rngs(seed):
    import numpy as np

    return random.Random(seed), np.random.Generator(np.random.PCG64(seed))


# ----------------------------------------------------------------------------------------------
# digests
# ----------------------------------------------------------------------------------------------


def digest_update(h, obj):
    import numpy as np

    if obj is None:
        h.update(b"N")
    elif isinstance(obj, (bool, int)):
        h.update(b"i" + str(int(obj)).encode())
    elif isinstance(obj, float):
        h.update(b"f" + repr(obj).encode())
    elif isinstance(obj, complex):
        h.update(b"c" + repr(obj).encode())
    elif isinstance(obj, str):
        h.update(b"s" + obj.encode())
    elif isinstance(obj, bytes):
        h.update(b"b" + obj)
    elif isinstance(obj, np.ndarray):
        a = np.ascontiguousarray(obj)
        h.update(b"a" + str(a.dtype).encode() + str(a.shape).encode())
        h.update(a.tobytes())
    elif isinstance(obj, np.generic):
        digest_update(h, obj.item())
    elif isinstance(obj, (list, tuple)):
        h.update(b"l%d" % len(obj))
        for x in obj:
            digest_update(h, x)
    elif isinstance(obj, dict):
        h.update(b"d%d" % len(obj))
        for k in sorted(obj, key=str):
            digest_update(h, str(k))
            digest_update(h, obj[k])
    else:
        try:
            import scipy.sparse as sp

            if sp.issparse(obj):
                c = obj.tocoo()
                digest_update(h, [c.shape, c.row, c.col, c.data])
                return
        except Exception:
            pass
        h.update(b"r" + repr(type(obj)).encode())


def digest(obj, n=16):
    h = hashlib.sha256()
    digest_update(h, obj)
    return h.hexdigest()[:n]


class EventLog:
    """One line per simulator step; hashed to the run digest. Never draws from a PRNG."""

    def __init__(self, keep=True):
        self.lines = []
        self.h = hashlib.sha256()
        self.keep = keep
        self.n = 0

    def add(self, *fields):
        line = "%d|%s" % (self.n, "|".join(str(f) for f in fields))
        self.n += 1
        self.h.update(line.encode() + b"\n")
        if self.keep:
            self.lines.append(line)

    def hexdigest(self):
        return self.h.hexdigest()[:20]


# ----------------------------------------------------------------------------------------------
# worker pool
# ----------------------------------------------------------------------------------------------


def _worker_main(conn, fn):
    faulthandler.enable()
    signal.signal(signal.SIGINT, signal.SIG_IGN)
    while True:
        try:
            msg = conn.recv()
        except EOFError:
            return
        if msg is None:
            return
        i, arg = msg
        try:
            out = ("ok", fn(arg))
        except HarnessError as e:
            out = ("harness", "%s\n%s" % (e, traceback.format_exc()))
        except BaseException as e:  # noqa
            out = ("harness", "%s: %s\n%s" % (type(e).__name__, e, traceback.format_exc()))
        try:
            conn.send((i, out))
        except Exception as e:  # noqa  (unpicklable payload)
            conn.send((i, ("harness", "result not sendable: %r" % (e,))))


class _Worker:
    def __init__(self, ctx, fn):
        self.parent, child = ctx.Pipe()
        self.proc = ctx.Process(target=_worker_main, args=(child, fn), daemon=True)
        self.proc.start()
        child.close()
        self.task = None  # (i, arg, t_start)

    def kill(self):
        try:
            self.proc.kill()
            self.proc.join(5)
        except Exception:
            pass
        try:
            self.parent.close()
        except Exception:
            pass


def in_child(fn, *args, timeout=600):
    """Run fn(*args) in a forked child of the *current* process state and return its result.
    Used where the caller must stay pristine (no OpenAeroStruct object ever built in it).
    Raw os.fork (multiprocessing forbids children of daemonic workers)."""
    import pickle
    import select

    r, w = os.pipe()
    sys.stdout.flush()
    sys.stderr.flush()
    pid = os.fork()
    if pid == 0:
        code = 0
        try:
            os.close(r)
            try:
                out = ("ok", fn(*args))
            except HarnessError as e:
                out = ("harness", "%s\n%s" % (e, traceback.format_exc()))
            except BaseException as e:  # noqa
                out = ("harness", "%s: %s\n%s" % (type(e).__name__, e, traceback.format_exc()))
            try:
                data = pickle.dumps(out, protocol=pickle.HIGHEST_PROTOCOL)
            except Exception as e:  # noqa
                data = pickle.dumps(("harness", "result not picklable: %r" % (e,)))
            with os.fdopen(w, "wb") as f:
                f.write(data)
        except BaseException:  # noqa
            code = 1
        finally:
            os._exit(code)
    os.close(w)
    chunks = []
    t_end = time.time() + timeout
    try:
        while True:
            left = t_end - time.time()
            if left <= 0:
                os.kill(pid, signal.SIGKILL)
                os.waitpid(pid, 0)
                raise HarnessError("child timed out after %ss" % timeout)
            rl, _, _ = select.select([r], [], [], min(left, 5.0))
            if rl:
                b = os.read(r, 1 << 20)
                if not b:
                    break
                chunks.append(b)
    finally:
        os.close(r)
    os.waitpid(pid, 0)
    if not chunks:
        raise HarnessError("child died without a result")
    st, pl = pickle.loads(b"".join(chunks))
    if st != "ok":
        raise HarnessError("child failed: %s" % pl)
    return pl


class PristineServer:
    """A child forked *now* (while this process has not yet built anything) that computes fn(*args) on request, each
    request in its own grandchild: every reference computation starts from the same pristine interpreter image, however
    much process-wide state the requesting process (which runs the history under test) accumulates meanwhile."""

    def __init__(self, timeout=600):
        import pickle

        self._pickle = pickle
        self.timeout = timeout
        self._req_r, self._req_w = os.pipe()
        self._res_r, self._res_w = os.pipe()
        sys.stdout.flush()
        sys.stderr.flush()
        self.pid = os.fork()
        if self.pid == 0:
            os.close(self._req_w)
            os.close(self._res_r)
            try:
                self._serve()
            finally:
                os._exit(0)
        os.close(self._req_r)
        os.close(self._res_w)

    @staticmethod
    def _read_exact(fd, n):
        chunks = []
        while n > 0:
            b = os.read(fd, min(n, 1 << 20))
            if not b:
                raise EOFError
            chunks.append(b)
            n -= len(b)
        return b"".join(chunks)

    def _send(self, fd, obj):
        data = self._pickle.dumps(obj, protocol=self._pickle.HIGHEST_PROTOCOL)
        os.write(fd, len(data).to_bytes(8, "little"))
        view = memoryview(data)
        while view:
            k = os.write(fd, view[: 1 << 20])
            view = view[k:]

    def _recv(self, fd):
        n = int.from_bytes(self._read_exact(fd, 8), "little")
        return self._pickle.loads(self._read_exact(fd, n))

    def _serve(self):
        while True:
            try:
                req = self._recv(self._req_r)
            except EOFError:
                return
            if req is None:
                return
            fn, args = req
            try:
                out = ("ok", in_child(fn, *args, timeout=self.timeout))
            except HarnessError as e:
                out = ("harness", str(e))
            except BaseException as e:  # noqa
                out = ("harness", "%s: %s" % (type(e).__name__, e))
            self._send(self._res_w, out)

    def call(self, fn, *args):
        self._send(self._req_w, (fn, args))
        st, pl = self._recv(self._res_r)
        if st != "ok":
            raise HarnessError("reference computation failed: %s" % pl)
        return pl

    def close(self):
        try:
            self._send(self._req_w, None)
        except Exception:
            pass
        for fd in (self._req_w, self._res_r):
            try:
                os.close(fd)
            except Exception:
                pass
        try:
            os.waitpid(self.pid, 0)
        except Exception:
            pass


def run_pool(fn, args, workers=None, task_timeout=600, wall_budget=None, on_result=None, recycle=False):
    """Run fn(arg) for every arg in forked workers, one task per worker at a time.

    Returns list of (arg, status, payload); status in {"ok","harness","timeout","skipped"}.
    A worker that exceeds task_timeout (or dies) is killed and replaced; only its task is lost.
    Tasks not started when wall_budget expires are "skipped" (reported, never counted as passed).
    Dispatch order is fixed (index order); results are keyed by index, so scheduling of workers
    by the OS cannot influence what a run computes."""
    from multiprocessing.connection import wait as mpwait

    workers = workers or int(os.environ.get("VERIF_WORKERS", os.cpu_count() or 4))
    args = list(args)
    results = [None] * len(args)
    t0 = time.time()

    stop = [False]

    def finish(i, st, pl):
        results[i] = (args[i], st, pl)
        if on_result and on_result(results[i]):
            stop[0] = True  # the caller has seen enough (sensitivity runs only): nothing more is dispatched

    if workers <= 1 or os.environ.get("VERIF_INPROC") == "1":
        for i, a in enumerate(args):
            if stop[0] or (wall_budget and time.time() - t0 > wall_budget):
                finish(i, "skipped", None)
                continue
            try:
                finish(i, "ok", fn(a))
            except BaseException as e:  # noqa
                finish(i, "harness", "%s: %s\n%s" % (type(e).__name__, e, traceback.format_exc()))
        return results

    ctx = mp.get_context("fork")
    nw = min(workers, max(1, len(args)))
    pool = [_Worker(ctx, fn) for _ in range(nw)]
    nxt = 0
    try:
        while True:
            # dispatch
            for w in pool:
                if w.task is None and nxt < len(args):
                    if stop[0] or (wall_budget and time.time() - t0 > wall_budget):
                        while nxt < len(args):
                            finish(nxt, "skipped", None)
                            nxt += 1
                        break
                    w.parent.send((nxt, args[nxt]))
                    w.task = (nxt, time.time())
                    nxt += 1
            busy = [w for w in pool if w.task is not None]
            if not busy:
                break
            ready = mpwait([w.parent for w in busy], timeout=2.0)
            now = time.time()
            for k, w in enumerate(pool):
                if w.task is None:
                    continue
                i, ts = w.task
                if w.parent in ready:
                    try:
                        ri, out = w.parent.recv()
                        finish(ri, out[0], out[1])
                        w.task = None
                        if recycle:  # one task per process: the next task starts from the pristine parent
                            try:
                                w.parent.send(None)
                            except Exception:
                                pass
                            w.proc.join(2)
                            if w.proc.is_alive():
                                w.kill()
                            pool[k] = _Worker(ctx, fn)
                    except (EOFError, OSError):
                        finish(i, "timeout", "worker died")
                        w.kill()
                        pool[k] = _Worker(ctx, fn)
                elif now - ts > task_timeout or not w.proc.is_alive():
                    finish(i, "timeout", "task exceeded %ss or worker died" % task_timeout)
                    w.kill()
                    pool[k] = _Worker(ctx, fn)
    finally:
        for w in pool:
            try:
                w.parent.send(None)
            except Exception:
                pass
        for w in pool:
            w.proc.join(2)
            if w.proc.is_alive():
                w.kill()
    return results


# ----------------------------------------------------------------------------------------------
# ddmin
# ----------------------------------------------------------------------------------------------


def ddmin(items, test, max_tests=200):
    """Classic delta debugging: smallest sublist (order kept) for which test(sublist) is True.

    ``test`` must be deterministic. Bounded by max_tests evaluations."""
    items = list(items)
    n = 2
    tests = 0
    while len(items) >= 2 and tests < max_tests:
        chunk = max(1, len(items) // n)
        subsets = [items[i : i + chunk] for i in range(0, len(items), chunk)]
        reduced = False
        for i in range(len(subsets)):
            comp = [x for j, s in enumerate(subsets) if j != i for x in s]
            tests += 1
            if comp and test(comp):
                items = comp
                n = max(n - 1, 2)
                reduced = True
                break
            if tests >= max_tests:
                break
        if not reduced:
            if n >= len(items):
                break
            n = min(len(items), n * 2)
    return items


# ----------------------------------------------------------------------------------------------
# known findings
# ----------------------------------------------------------------------------------------------


def load_known_findings():
    p = os.path.join(VERIF, "known_findings.json")
    if not os.path.exists(p):
        return {"open": [], "fixed": []}
    with open(p) as f:
        return json.load(f)


def match_known(prop, signature, known=None):
    """signature: dict(cls=..., where=..., needs=[op kinds]) ; returns the matching open entry or None."""
    known = known or load_known_findings()
    for e in known.get("open", []):
        if e.get("property") != prop:
            continue
        m = e.get("match", {})
        if all(signature.get(k) == v for k, v in m.items() if k != "needs") and set(m.get("needs", [])) <= set(
            signature.get("needs", [])
        ):
            return e
    return None


# ----------------------------------------------------------------------------------------------
# evidence + replay files
# ----------------------------------------------------------------------------------------------


def write_json(path, obj):
    os.makedirs(os.path.dirname(path), exist_ok=True)
    tmp = path + ".tmp%d" % os.getpid()
    with open(tmp, "w") as f:
        json.dump(obj, f, indent=1, sort_keys=True, default=_json_default)
        f.write("\n")
    os.replace(tmp, path)


def _json_default(o):
    import numpy as np

    if isinstance(o, np.ndarray):
        return o.tolist()
    if isinstance(o, np.generic):
        return o.item()
    if isinstance(o, complex):
        return [o.real, o.imag]
    if isinstance(o, set):
        return sorted(o)
    return repr(o)


def write_evidence(prop, tier, seed, coverage, wall_s, violations, assumptions):
    path = os.path.join(_abs_dir(os.environ.get("VERIF_EVIDENCE_DIR") or os.path.join(VERIF, "evidence")), "%s.json" % prop)
    ev = {
        "property_id": prop,
        "tier": tier,
        "seed": int(seed),
        "level": "exploration",
        "coverage": coverage,
        "assumptions": assumptions,
        "wall_s": round(float(wall_s), 2),
        "violations": int(violations),
    }
    write_json(path, ev)
    if tier == "thorough":  # keep the deep run's record next to the canonical (last-run) file
        write_json(path[:-5] + ".thorough.json", ev)
    return path


def replay_path(prop, seed, tag=""):
    d = _abs_dir(os.environ.get("VERIF_REPLAY_DIR") or os.path.join(VERIF, "replays"))
    os.makedirs(d, exist_ok=True)
    return os.path.join(d, "%s-%s%s.json" % (prop, seed, tag))
