"""C03 - outputs and derivatives depend only on the current point, not on history.

A seeded history machine: one live Problem, a generated sequence of public-API operations and
faults, and a reference model that *is* the specification: a freshly built Problem evaluated once
at the current point (R_lin: run_model once + run_linearize once; R_tot: run_model once +
compute_totals once).
"""
import os
import io
import json
import time
import contextlib
import numpy as np

from . import core, zoo, obs, faults, simdisk
from .core import HarnessError

PROP = "C03"

# Tolerances: |live - ref|_inf <= rtol * |ref|_inf + atol * (neighbourhood scale), per variable / block.
# neighbourhood scale = max |.| over the outputs of the same component (outputs), the partials of the
# same component (sub-Jacobians), the blocks of the same `of` row (totals: one linear solve per row,
# so solver noise in a numerically-zero block scales with its neighbours).
# "plain" = no iterative solver in the model (live and fresh agree to round-off);
# "coupled" = an NLBGS fixed point converged to the tightened tolerance (DEFAULT_TIGHTEN) - "to solver
# tolerance" in the property's words. Calibrated on the repaired tree; the measured worst ratio
# err/allowed is reported in the evidence file (margin_worst_ratio) and must stay << 1.
#        rt_out  at_out  rt_jac  at_jac  rt_tot  at_tot
TOL = {
    "plain": (1e-10, 1e-13, 1e-10, 1e-13, 1e-9, 1e-12),
    "coupled": (1e-8, 1e-10, 1e-8, 1e-10, 3e-7, 3e-10),  # totals: worst observed ratio at 1e-7 was 0.09 (Z11); 3x more room
}

FAULT_KINDS = ("fd_excursion", "cs_excursion", "scribble", "abort")  # "abort" covers injected AnalysisError and solver starvation


# ------------------------------------------------------------------------------------------------
# generation
# ------------------------------------------------------------------------------------------------


def gen_history(seed, tier="quick", zoo_filter=None, faults_on=True):
    rng, nprng = core.rngs(seed)
    variants = zoo.variants()
    if zoo_filter:
        variants = [v for v in variants + [{"zoo": "Z0"}] if v["zoo"] in zoo_filter]
    spec = dict(rng.choice(variants))
    spec["mode"] = rng.choice(["fwd", "rev"])
    if spec["zoo"] in ("Z10", "Z7"):
        spec["ny"] = rng.choice([5, 7])
    elif spec["zoo"] in ("Z5",):
        spec["ny"] = rng.choice([3, 5])
    elif spec["zoo"] in ("Z2", "Z9"):  # full-span surfaces: 3 spanwise nodes is a valid (tiny) mesh
        spec["ny"] = rng.choice([3, 5, 7])
        spec["nx"] = rng.choice([2, 2, 3])
    elif spec["zoo"] not in ("Z0", "Z14"):
        # symmetric: num_y=3 leaves one spanwise panel, for which OpenMDAO's SplineComp cannot
        # interpolate (fails inside openmdao, in live and reference alike) - not an admissible model
        spec["ny"] = rng.choice([5, 7])
        spec["nx"] = rng.choice([2, 2, 3])
    if spec["zoo"] in ("Z1", "Z2", "Z3", "Z4", "Z8", "Z9", "Z10", "Z11", "Z12", "Z13", "Z15") and rng.random() < 0.3:
        spec["surf_opts"] = dict(rng.choice(zoo.SURF_OPT_CHOICES))
    use_driver = spec["zoo"] in ("Z1", "Z6", "Z8") and rng.random() < 0.25
    if use_driver:
        spec["driver"] = True
    # the generator needs the input specs: build once (cheap) to read them
    model = zoo.build(spec)
    npts = rng.randint(2, 4)
    points = [model.nominal_point()] if rng.random() < 0.5 else []
    while len(points) < npts:
        points.append(draw_point(model, points, rng, nprng))
    enabled = {k: (faults_on and rng.random() < 0.7) for k in FAULT_KINDS}
    methods = [m for m, on in (("fd", enabled["fd_excursion"]), ("cs", enabled["cs_excursion"])) if on]
    comp_paths = [c.pathname for c in obs.components(model.prob) if obs.is_oas(c)]
    # per-run op-mix knobs (swarm)
    p_scribble = rng.uniform(0.0, 0.5) if enabled["scribble"] else 0.0
    p_abort = rng.uniform(0.0, 0.4) if enabled["abort"] else 0.0
    p_rerun = rng.uniform(0.0, 0.4)
    p_excursion = rng.uniform(0.1, 0.6) if methods else 0.0
    p_driver = 0.35 if use_driver else 0.0
    p_revisit = rng.uniform(0.1, 0.5)
    has_disk = "disk_dir" in model.notes
    p_disk = (rng.uniform(0.2, 0.7) if (faults_on and rng.random() < 0.8) else 0.0) if has_disk else 0.0

    def lin_op():
        r = rng.random()
        if r < 0.4:
            return {"op": "linearize"}
        return {"op": "compute_totals", "of": _subset(rng, model.of), "wrt": _subset(rng, model.wrt)}

    def excursion_op():
        if rng.random() < 0.6:
            inc = None
            if comp_paths and rng.random() < 0.8:
                inc = sorted(set(rng.sample(comp_paths, min(len(comp_paths), rng.randint(1, 4)))))
            op = {"op": "check_partials", "method": rng.choice(methods), "includes": inc}
            if op["method"] == "fd" and rng.random() < 0.4:
                # less common forms of the same excursion: other stencil, other step
                op["form"] = rng.choice(["central", "backward", "forward"])
                op["step"] = rng.choice([1e-5, 1e-6, 1e-7])
            return op
        return {"op": "check_totals", "method": rng.choice(methods), "of": _subset(rng, model.of, 2), "wrt": _subset(rng, model.wrt, 2)}

    # A history is a sequence of visits: set a point, (fault), converge, then a burst of linearisations and
    # excursions - the shape of an optimiser's life, and the shape in which stale state is consumed.
    ops = []
    n_visits = rng.randint(2, 5) if tier != "thorough" else rng.choice([rng.randint(2, 5), rng.randint(4, 12)])
    prev = None
    visited = []
    for v in range(n_visits):
        if visited and rng.random() < p_revisit:
            k = rng.choice(visited)
        else:
            cands = [i for i in range(len(points)) if i != prev] or [0]
            k = rng.choice(cands)
        ops.append({"op": "set_point", "k": k})
        prev = k
        visited.append(k)
        if v > 0 and rng.random() < p_scribble:
            ops.append({"op": "scribble", "kind": rng.choice(["zeros", "initial", "scale", "donor", "noise"]),
                        "factor": round(rng.uniform(0.0, 3.0), 3), "donor": rng.randrange(len(points)),
                        "nseed": rng.randrange(10**6)})
        if v > 0 and has_disk and rng.random() < p_disk:
            ops.append({"op": "disk", "fault": rng.choice(["enoent", "eacces", "enospc", "enospc"]),
                        "after": rng.choice([0, 1, 60, 150, 400, 900, 10**7])})
        if v > 0 and rng.random() < p_abort:
            if model.coupled and rng.random() < 0.4:
                # the natural failed evaluation: the coupled solver runs out of sweeps and raises AnalysisError
                ops.append({"op": "starve", "maxiter": rng.randint(2, 5)})
            else:
                ops.append({"op": "abort", "target": "run_model", "frac": round(rng.uniform(0.02, 0.98), 4)})
        ops.append({"op": "run_model"})
        if rng.random() < p_rerun:
            ops.append({"op": "run_model"})
        if rng.random() < p_driver:
            ops.append({"op": "run_driver", "maxiter": rng.randint(1, 3)})
            ops.append({"op": "run_model"})
        nburst = rng.choice([0, 1, 1, 2, 2, 3])
        for _ in range(nburst):
            if rng.random() < p_excursion:
                ops.append(excursion_op())
                r = rng.random()
                if r < 0.55:
                    ops.append(lin_op())  # linearise right after the excursion, without re-running
                elif r < 0.8:
                    ops.append({"op": "run_model"})
                    ops.append(lin_op())
            else:
                ops.append(lin_op())
    # finish with a full observation at the last point
    ops.append({"op": "linearize"})
    ops.append({"op": "compute_totals", "of": list(model.of), "wrt": list(model.wrt)})
    hist = {
        "property": PROP,
        "seed": seed,
        "spec": spec,
        "points": [{k: np.asarray(v).tolist() for k, v in p.items()} for p in points],
        "ops": ops,
        "enabled_faults": enabled,
    }
    return hist


def draw_point(model, points, rng, nprng):
    """A new admissible point. Four modes, because history defects hide in different neighbourhoods:
    independent (a random subset of inputs redrawn, others nominal); sibling (an existing pool point
    with one or two inputs redrawn - exposes memoisation keyed on too few inputs); nearby (an existing
    pool point perturbed by 1e-7..1e-3 relative, as line searches and finite differences do - exposes
    'close enough' cache validation)."""
    r = rng.random()
    with_special = [i for i in model.inputs if i.special]
    if points and with_special and r < 0.12:
        # special-value toggle: a pool point with ONE input moved onto (or off) one of its exact special values
        # (zero thrust, zero body rates, taper exactly 1, empty tanks ...) and nothing else changed - the shape of
        # an engine-out case derived from a powered one. Exact-value branches (early exits, skipped work) are only
        # entered at such values, and only matter when the neighbour in the history was not on them.
        base = rng.choice(points)
        pt = {k: np.array(v, dtype=float, copy=True) for k, v in base.items()}
        inp = rng.choice(with_special)
        on_special = any(np.all(pt[inp.name] == float(sv)) for sv in inp.special)
        if on_special:
            for _ in range(8):
                v = inp.draw(nprng, rng)
                if not any(np.all(v == float(sv)) for sv in inp.special):
                    break
            pt[inp.name] = v
        else:
            pt[inp.name] = np.full(inp.nom.shape, float(rng.choice(inp.special)))
        return pt
    if points and r < 0.3:
        base = rng.choice(points)
        pt = {k: np.array(v, dtype=float, copy=True) for k, v in base.items()}
        for inp in rng.sample(model.inputs, min(len(model.inputs), rng.randint(1, 2))):
            pt[inp.name] = inp.draw(nprng, rng)
        return pt
    if points and r < 0.45:
        base = rng.choice(points)
        eps = 10.0 ** rng.uniform(-7, -3)
        pt = {}
        for inp in model.inputs:
            v = np.array(base[inp.name], dtype=float, copy=True)
            if rng.random() < 0.5:
                scale = np.maximum(np.abs(v), 1e-3 * max(1.0, float(np.max(np.abs(inp.nom))) if inp.nom.size else 1.0))
                v = v + eps * scale * nprng.uniform(-1.0, 1.0, size=v.shape)
            pt[inp.name] = v
        return pt
    pt = {}
    for inp in model.inputs:
        pt[inp.name] = inp.draw(nprng, rng) if rng.random() < 0.6 else inp.nom.copy()
    return pt


def _subset(rng, names, kmax=None):
    names = list(names)
    if not names:
        return []
    k = rng.randint(1, min(len(names), kmax or len(names)))
    return sorted(rng.sample(names, k), key=names.index)


# ------------------------------------------------------------------------------------------------
# reference model
# ------------------------------------------------------------------------------------------------


def _ref_compute(spec, tighten, point, need):
    """Executed in a pristine grandchild (see core.PristineServer)."""
    r = Reference(spec, tighten, server=None)
    ent = r.get("p", point, need)
    return {k: v for k, v in ent.items()}


class Reference:
    """Fresh Problem evaluated once at a point. Never shares the history it is the oracle for - nor, when a
    PristineServer is given, the *process* it ran in: class-level and module-level state written by the live history
    cannot reach the reference."""

    def __init__(self, spec, tighten=None, server=None):
        self.spec = spec
        self.tighten = tighten
        self.cache = {}
        self.server = server

    def _fresh(self, point):
        m = zoo.build(self.spec)
        _configure(m, self.tighten)
        m.set_point(point)
        with _quiet():
            m.prob.run_model()
        return m

    def get(self, key, point, need):
        """need in {'out','lin','tot'}; returns dict with outputs / subjacs / totals."""
        ent = self.cache.setdefault(key, {})
        if self.server is not None:
            want = "lin" if need in ("out", "lin") else "tot"
            if want not in ent:
                ent.update(self.server.call(_ref_compute, self.spec, self.tighten, point, want))
            return ent
        if need in ("out", "lin") and "lin" not in ent:
            m = self._fresh(point)
            ent["out"] = obs.read_outputs(m.prob)
            ent["files"] = simdisk.read_files(m.prob)  # what the evaluation wrote to the (simulated) disk, if it writes
            with _quiet():
                m.prob.model.run_linearize()
            ent["lin"] = obs.read_subjacs(m.prob)
            ent["out_after_lin"] = obs.read_outputs(m.prob)
            bad = obs.all_finite(ent["out"])
            if bad and not zoo.is_wind_off(point):
                raise HarnessError("reference not finite at %s (zoo range inadmissible): %s" % (key, bad))
        if need == "tot" and "tot" not in ent:
            m = self._fresh(point)
            ent["out_tot"] = obs.read_outputs(m.prob)
            with _quiet():
                ent["tot"] = obs.read_totals(m.prob, m.of, m.wrt)
        return ent


@contextlib.contextmanager
def _quiet():
    buf = io.StringIO()
    with contextlib.redirect_stdout(buf), contextlib.redirect_stderr(buf):
        yield


def _configure(model, tighten):
    if tighten and model.coupled:
        zoo.tighten_coupled(model, atol=tighten.get("atol"), rtol=tighten.get("rtol"))
    if model.spec.get("driver") and model.driver:
        pass  # driver is configured in build (before setup) - see zoo._maybe_driver


# ------------------------------------------------------------------------------------------------
# execution
# ------------------------------------------------------------------------------------------------


def _abstract_where(prob, cls, key):
    """Location of a violation in a form that survives shrinking: component class + variable names."""
    if cls == "subjac":
        of, wrt = key
        return "%s:%s/%s" % (obs.subjac_owner_class(prob, key), of.rsplit(".", 1)[-1], wrt.rsplit(".", 1)[-1])
    if cls == "totals":
        return "%s/%s" % (key[0].split(".")[-1], key[1].split(".")[-1])
    if cls == "outputs":
        path = key.rsplit(".", 1)[0]
        c = prob.model._get_subsystem(path)
        return "%s:%s" % (type(c).__name__ if c is not None else "?", key.rsplit(".", 1)[-1])
    return str(key)


def execute(hist, stop_at_first=True, known=None, collect=True):
    """Run one history. Returns a result dict (JSON-able)."""
    spec = hist["spec"]
    points = [{k: np.array(v, dtype=float) for k, v in p.items()} for p in hist["points"]]
    tighten = hist.get("tighten", DEFAULT_TIGHTEN)
    log = core.EventLog(keep=collect)
    res = {
        "seed": hist.get("seed"),
        "spec": spec,
        "violations": [],
        "known": [],
        "probes": {},
        "fault_fired": {},
        "ops_run": 0,
        "ops_skipped": 0,
        "logical_steps": 0,
        "cache_states": [],
        "comp_classes": [],
    }
    probes = res["probes"]

    def probe(name, n=1):
        probes[name] = probes.get(name, 0) + n

    def fired(name, n=1):
        res["fault_fired"][name] = res["fault_fired"].get(name, 0) + n

    server = core.PristineServer() if os.environ.get("VERIF_INPROC_REF") != "1" else None  # before anything is built here
    try:
        return _execute(hist, stop_at_first, known, collect, spec, points, tighten, log, res, probes, probe, fired, server)
    finally:
        if server is not None:
            server.close()


def _execute(hist, stop_at_first, known, collect, spec, points, tighten, log, res, probes, probe, fired, server):
    model = zoo.build(spec)
    _configure(model, tighten)
    disk_dir = model.notes.get("disk_dir")
    prob = model.prob
    coupled = bool(model.coupled)
    rt_out, at_out, rt_jac, at_jac, rt_tot, at_tot = TOL["coupled" if coupled else "plain"]
    margins = {"outputs": {}, "subjac": {}, "totals": {}}
    ref = Reference(spec, tighten, server=server)
    user0 = zoo.user_array_digests(model.user_dicts)
    prob.final_setup()
    initial = obs.read_outputs(prob)
    guess_names = faults.cycle_and_state_vars(model)
    converged_store = {}  # point index -> converged outputs (donors for scribbles)
    cur = None  # current point index
    cur_point = None
    converged = False
    visited_run = []  # sequence of point indices at completed run_models
    linearised_at = []  # point indices at linearisations
    last_run_calls = None
    excursion_since_run = None  # 'fd' / 'cs' if a check_* happened since the last run_model
    skip_keys = {"outputs": set(), "subjac": set(), "totals": set()}
    known = known if known is not None else core.load_known_findings()
    op_kinds_so_far = []
    stop = False

    def violation(cls, key, err, scale, opi, extra=None):
        nonlocal stop
        where = _abstract_where(prob, cls, key)
        v = {
            "cls": cls,
            "where": where,
            "key": list(key) if isinstance(key, tuple) else key,
            "err": err,
            "scale": scale,
            "op_index": opi,
            "needs": sorted(set(op_kinds_so_far)),
        }
        if extra:
            v.update(extra)
        k = core.match_known(PROP, v, known)
        if k is not None:
            v["known_id"] = k.get("id")
            res["known"].append(v)
            if cls in skip_keys:
                skip_keys[cls].add(key)
            return
        res["violations"].append(v)
        if stop_at_first:
            stop = True

    def check_outputs(opi, label):
        r = ref.get(cur, cur_point, "out")
        live = obs.read_outputs(prob)
        nf = obs.all_finite(live)
        if nf and np.all(np.isfinite(r["out"].get(nf, np.array([np.nan])))):
            # non-finite where the fresh Problem is finite (at a wind-off point coefficient-type outputs are 0/0 in
            # both, which the NaN-pattern-aware comparison below handles)
            violation("nonfinite", nf, float("inf"), 0.0, opi)
            return
        cs = obs.component_scale(r["out"])
        bad = obs.compare_dict(live, r["out"], rt_out, lambda k: at_out * cs.get(k.rsplit(".", 1)[0], 0.0),
                               skip=skip_keys["outputs"], stats=margins["outputs"])
        for key, err, scale in bad[:3]:
            violation("outputs", key, err, scale, opi, {"after": label})
            if stop:
                return
        if disk_dir is not None and "files" in r:
            # the solution files of the last completed evaluation are outputs of the analysis too
            fbad = simdisk.compare_files(simdisk.read_files(prob), r["files"])
            probe("solution_files_compared")
            for key, err, scale in fbad[:2]:
                violation("files", key, err, scale, opi, {"after": label})
                if stop:
                    return

    def check_subjacs(opi, label, only_comps=None):
        r = ref.get(cur, cur_point, "lin")
        live = obs.read_subjacs(prob)
        if only_comps is not None:
            live = {k: v for k, v in live.items() if k[0].rsplit(".", 1)[0] in only_comps}
            r = dict(r)
            r["lin"] = {k: v for k, v in r["lin"].items() if k in live}
        rowscale = {}
        for (o, w), v in r["lin"].items():
            c = o.rsplit(".", 1)[0]
            m = float(np.max(np.abs(v))) if v.size else 0.0
            rowscale[c] = max(rowscale.get(c, 0.0), m if np.isfinite(m) else 0.0)
        bad = obs.compare_dict(live, r["lin"], rt_jac, lambda k: at_jac * rowscale.get(k[0].rsplit(".", 1)[0], 0.0),
                               skip=skip_keys["subjac"], stats=margins["subjac"])
        for key, err, scale in bad[:3]:
            violation("subjac", key, err, scale, opi, {"after": label})
            if stop:
                return

    def check_totals_against_ref(live, opi, label):
        r = ref.get(cur, cur_point, "tot")
        rowscale = {}
        for (o, w), v in r["tot"].items():
            m = float(np.max(np.abs(v))) if v.size else 0.0
            rowscale[o] = max(rowscale.get(o, 0.0), m if np.isfinite(m) else 0.0)
        sub = {k: r["tot"][k] for k in live if k in r["tot"]}
        # a block that is (numerically) zero carries solver noise proportional to the other blocks of
        # the same row (one adjoint / direct solve per row): allow that, and only that
        bad = obs.compare_dict(live, sub, rt_tot, lambda k: at_tot * rowscale.get(k[0], 0.0), skip=skip_keys["totals"],
                               stats=margins["totals"])
        for key, err, scale in bad[:3]:
            violation("totals", key, err, scale, opi, {"after": label})
            if stop:
                return

    def check_user_data(opi):
        now = zoo.user_array_digests(model.user_dicts)
        if now != user0:
            changed = sorted(k for k in user0 if now.get(k) != user0[k])
            violation("user_data", changed[0] if changed else "?", float("inf"), 0.0, opi)
        else:
            ch = zoo.early_changed(model)
            if ch:
                violation("user_data", ch, float("inf"), 0.0, opi)

    def note_cache_state():
        d, n = obs.cache_state_digest(prob)
        res["cache_states"].append(d)

    for opi, op in enumerate(hist["ops"]):
        if stop:
            break
        kind = op["op"]
        legal = True
        if kind in ("linearize", "compute_totals", "check_partials", "check_totals") and (not converged or zoo.is_wind_off(cur_point)):
            legal = False  # never linearise an unconverged model, nor a wind-off point (0/0 functionals)
        if kind in ("run_model", "scribble", "abort", "run_driver", "starve", "disk") and cur is None:
            legal = False
        if kind == "run_driver" and not spec.get("driver"):
            legal = False
        if not legal:
            res["ops_skipped"] += 1
            log.add(kind, "skipped-illegal")
            continue
        res["ops_run"] += 1
        op_kinds_so_far.append(kind if kind not in ("check_partials", "check_totals") else "%s:%s" % (kind, op["method"]))
        try:
            if kind == "set_point":
                k = op["k"] % len(points)
                model.set_point(points[k])
                cur, cur_point = k, points[k]
                converged = False
                log.add("set_point", k, core.digest(points[k]))
            elif kind == "run_model":
                with faults.AbortInjector(prob, at=None) as inj, _quiet():
                    prob.run_model()
                last_run_calls = inj.count
                res["logical_steps"] += inj.count
                converged = True
                if excursion_since_run:
                    probe("run_after_%s_excursion" % excursion_since_run)
                excursion_since_run = None
                if visited_run and visited_run[-1] != cur:
                    probe("visit_B_after_A")
                if len(visited_run) >= 2 and cur in visited_run[:-1] and visited_run[-1] != cur:
                    probe("revisit_ABA")
                visited_run.append(cur)
                converged_store[cur] = obs.read_outputs(prob)
                log.add("run_model", cur, inj.count, core.digest(converged_store[cur]))
                check_outputs(opi, "run_model")
                _branch_probes(model, cur_point, probe)
            elif kind == "linearize":
                with _quiet():
                    prob.model.run_linearize()
                sj = obs.read_subjacs(prob)
                if linearised_at and any(p != cur for p in linearised_at):
                    probe("linearised_twice_same_instance_distinct_points")
                if excursion_since_run:
                    probe("%s_excursion_then_linearise_without_rerun" % excursion_since_run)
                linearised_at.append(cur)
                log.add("linearize", cur, core.digest(sj))
                check_subjacs(opi, "linearize")
                if not stop:
                    check_outputs(opi, "linearize")
            elif kind == "compute_totals":
                of = [o for o in op["of"] if o in model.of] or list(model.of)
                wrt = [w for w in op["wrt"] if w in model.wrt] or list(model.wrt)
                with _quiet():
                    tot = obs.read_totals(prob, of, wrt)
                if linearised_at and any(p != cur for p in linearised_at):
                    probe("linearised_twice_same_instance_distinct_points")
                if excursion_since_run:
                    probe("%s_excursion_then_linearise_without_rerun" % excursion_since_run)
                linearised_at.append(cur)
                log.add("compute_totals", cur, len(of), len(wrt), core.digest(tot))
                check_totals_against_ref(tot, opi, "compute_totals")
            elif kind == "check_partials":
                with _quiet():
                    kw = {}
                    if op.get("form"):
                        kw["form"] = op["form"]
                    if op.get("step"):
                        kw["step"] = op["step"]
                    data = prob.check_partials(out_stream=None, method=op["method"], includes=op.get("includes"),
                                               compact_print=True, **kw)
                excursion_since_run = op["method"]
                fired("%s_excursion" % op["method"])
                log.add("check_partials", op["method"], len(data))
                check_outputs(opi, "check_partials")
                if not stop:
                    # check_partials re-linearises the components it visits: what it leaves in their Jacobian
                    # storage (and reports to the user as the analytic derivative) must be the fresh value too
                    check_subjacs(opi, "check_partials", only_comps=set(data.keys()))
            elif kind == "check_totals":
                of = [o for o in op["of"] if o in model.of] or list(model.of)[:1]
                wrt = [w for w in op["wrt"] if w in model.wrt] or list(model.wrt)[:1]
                with _quiet():
                    data = prob.check_totals(of=of, wrt=wrt, out_stream=None, method=op["method"], compact_print=True)
                excursion_since_run = op["method"]
                fired("%s_excursion" % op["method"])
                live = {}
                for (o, w), d in data.items():
                    J = d.get("J_fwd") if d.get("J_fwd") is not None else d.get("J_rev")
                    ko = _resolve(of, o)
                    kw = _resolve(wrt, w)
                    if J is not None and ko and kw:
                        live[(ko, kw)] = np.asarray(J, dtype=float).ravel()
                log.add("check_totals", op["method"], core.digest(live))
                check_totals_against_ref(live, opi, "check_totals")
                if not stop:
                    check_outputs(opi, "check_totals")
            elif kind == "scribble":
                _, nprng = core.rngs(op["nseed"])
                donor = converged_store.get(op["donor"] % len(points))
                sk = op["kind"]
                if sk == "donor" and donor is None:
                    sk = "scale"
                n = faults.scribble(model, sk, nprng, guess_names, initial, donor, op["factor"])
                converged = False
                if n:
                    fired("scribble")
                    probe("guess_scribbled")
                log.add("scribble", sk, op["factor"], n)
            elif kind == "abort":
                if not visited_run:
                    res["ops_skipped"] += 1
                    log.add(kind, "skipped-no-inflight-state")
                    continue
                total = last_run_calls or max(10, 3 * len(obs.components(prob)))
                # Only evaluations are aborted. An exception raised inside a linearisation lands inside
                # OpenMDAO's own finite-difference / complex-step loops, which restore the perturbed input only
                # on the normal path (not in a finally): the component's input stays perturbed by the FD step
                # and the next Jacobian is garbage (seen on wingbox_geometry, d/d mesh off by 1e7). That is an
                # exception-safety matter of the framework, not an OAS property, and optimisers do not survive
                # a failed gradient evaluation anyway (DESIGN 12.2 item 6).
                target = "run_model"
                if target == "compute_totals":
                    total = max(5, len(obs.components(prob)))
                at = max(1, int(op["frac"] * total))
                aborted = False
                import openmdao.api as om

                with faults.AbortInjector(prob, at=at) as inj, _quiet():
                    try:
                        if target == "run_model":
                            prob.run_model()
                        else:
                            prob.compute_totals(of=list(model.of), wrt=list(model.wrt))
                    except om.AnalysisError:
                        aborted = True
                res["logical_steps"] += inj.count
                if aborted:
                    fired("abort")
                    if target == "run_model":
                        converged = False
                        if coupled and inj.fired and any(inj.fired[1].startswith(p + ".") for p in model.coupled):
                            probe("abort_inside_coupled")
                    # an aborted compute_totals leaves the states converged (it does not touch them)
                else:
                    # the op completed before reaching call #at: it was an ordinary run
                    if target == "run_model":
                        converged = True
                        visited_run.append(cur)
                log.add("abort", target, at, aborted, inj.fired[1:] if inj.fired else None)
            elif kind == "disk":
                # the disk under the solution writer fails during an evaluation: directory gone, read-only, or full
                # part-way through the file (a torn file stays behind). The evaluation has to fail loudly; the Problem
                # is then used again like after any failed evaluation.
                if disk_dir is None or not visited_run:
                    res["ops_skipped"] += 1
                    log.add(kind, "skipped")
                    continue
                dsk = simdisk.DISK
                dsk.arm(disk_dir, op["fault"], op.get("after"))
                raised = None
                try:
                    with _quiet():
                        prob.run_model()
                except Exception as e:  # OpenMDAO re-wraps an OSError (its message helper cannot take errno args)
                    raised = type(e).__name__
                finally:
                    dsk.disarm(disk_dir)
                if raised is None:
                    converged = True  # the fault did not bite (disk filled up later than the file is long): an ordinary run
                    visited_run.append(cur)
                else:
                    converged = False
                    fired("disk_" + op["fault"])
                    probe("disk_error_during_evaluation")
                log.add("disk", op["fault"], op.get("after"), raised)
            elif kind == "starve":
                import openmdao.api as om

                if not visited_run:
                    # same precondition as abort: in-flight state must exist (and maxiter=1 is never used: with
                    # maxiter < 2 NLBGS evaluates apply_nonlinear at the raw guess instead of doing its clean sweep)
                    res["ops_skipped"] += 1
                    log.add(kind, "skipped-no-inflight-state")
                    continue
                op = dict(op, maxiter=max(2, int(op["maxiter"])))
                saved = []
                for path in model.coupled:
                    nl = prob.model._get_subsystem(path).nonlinear_solver
                    saved.append((nl, nl.options["maxiter"]))
                    nl.options["maxiter"] = int(op["maxiter"])
                failed = False
                try:
                    with _quiet():
                        prob.run_model()
                except om.AnalysisError:
                    failed = True
                finally:
                    for nl, mi in saved:
                        nl.options["maxiter"] = mi
                converged = False
                if failed:
                    fired("starve")
                    probe("solver_ran_out_of_sweeps_then_rerun")
                log.add("starve", op["maxiter"], failed)
            elif kind == "run_driver":
                with _quiet():
                    _run_driver(model, op["maxiter"])
                # the driver leaves the model at some design point: make it a pool point
                newpt = {i.name: np.array(prob.get_val(i.name), dtype=float).ravel() for i in model.inputs}
                points.append(newpt)
                cur, cur_point = len(points) - 1, newpt
                converged = False
                probe("run_driver")
                log.add("run_driver", op["maxiter"], core.digest(newpt))
            else:
                raise HarnessError("unknown op %r" % (kind,))
        except HarnessError:
            raise
        except Exception as e:  # a legal op must not raise
            import traceback

            frames = []
            ee = e
            seen_exc = set()
            while ee is not None and id(ee) not in seen_exc:
                seen_exc.add(id(ee))
                tb = traceback.extract_tb(ee.__traceback__)
                frames = [f for f in tb if "/openaerostruct/" in f.filename] or frames
                ee = ee.__cause__ or ee.__context__
            where = "%s:%s" % (os.path.basename(frames[-1].filename), frames[-1].name) if frames else type(e).__name__
            # History-dependence is what is judged: an op that raises the same way on a freshly built
            # Problem at this point (e.g. OpenMDAO refusing check_partials(method="cs") on a component
            # whose partials are themselves complex-stepped) is not a C03 violation.
            ref_exc = _ref_op_exception(spec, tighten, cur_point, op, model) if cur_point is not None else None
            if ref_exc == type(e).__name__:
                log.add(kind, "raised-in-reference-too", type(e).__name__)
                probe("op_raises_on_fresh_problem_too")
                converged = False
                continue
            v = {
                "cls": "exception",
                "where": where,
                "key": type(e).__name__,
                "err": float("inf"),
                "scale": 0.0,
                "op_index": opi,
                "needs": sorted(set(op_kinds_so_far)),
                "message": str(e)[:300],
                "in_oas": bool(frames),
            }
            k = core.match_known(PROP, v, known)
            if k is not None:
                v["known_id"] = k.get("id")
                res["known"].append(v)
            else:
                res["violations"].append(v)
                if stop_at_first:
                    stop = True
            log.add(kind, "raised", type(e).__name__)
            # after an exception in a linearisation op the model state is unknown: require re-run
            converged = False
        if not stop:
            check_user_data(opi)
        note_cache_state()
    res["margins"] = {k: v.get("worst", 0.0) for k, v in margins.items()}
    res["coupled"] = coupled
    res["digest"] = log.hexdigest()
    res["log"] = log.lines if collect else []
    res["abstract"] = core.digest([spec, [(_abs_op(o)) for o in hist["ops"]]])
    pts = set(visited_run)
    res["nontrivial"] = bool(len(visited_run) >= 2 and len(pts) >= 2 and len(linearised_at) >= 1
                             and any(i for i in range(len(linearised_at))))
    res["comp_classes"] = sorted({type(c).__name__ for c in obs.components(prob) if obs.is_oas(c)}) if len(visited_run) >= 2 and len(pts) >= 2 else []
    res["n_points_visited"] = len(pts)
    return res


_REF_EXC_CACHE = {}


def _ref_op_exception(spec, tighten, point, op, live_model):
    """Run ``op`` on a fresh Problem converged once at ``point``; return the exception type name or None."""
    key = core.digest([spec, point, {k: v for k, v in op.items() if k not in ("nseed",)}])
    if key in _REF_EXC_CACHE:
        return _REF_EXC_CACHE[key]
    kind = op["op"]
    out = None
    try:
        m = zoo.build(spec)
        _configure(m, tighten)
        m.set_point(point)
        with _quiet():
            m.prob.run_model()
            if kind == "linearize":
                m.prob.model.run_linearize()
            elif kind == "compute_totals":
                m.prob.compute_totals(of=[o for o in op["of"] if o in m.of] or list(m.of),
                                      wrt=[w for w in op["wrt"] if w in m.wrt] or list(m.wrt))
            elif kind == "check_partials":
                kw = {k_: op[k_] for k_ in ("form", "step") if op.get(k_)}
                m.prob.check_partials(out_stream=None, method=op["method"], includes=op.get("includes"), compact_print=True, **kw)
            elif kind == "check_totals":
                m.prob.check_totals(of=[o for o in op["of"] if o in m.of] or list(m.of)[:1],
                                    wrt=[w for w in op["wrt"] if w in m.wrt] or list(m.wrt)[:1],
                                    out_stream=None, method=op["method"], compact_print=True)
    except Exception as e:  # noqa
        out = type(e).__name__
    _REF_EXC_CACHE[key] = out
    return out


def _abs_op(o):
    k = o["op"]
    if k == "set_point":
        return (k, o["k"])
    if k in ("check_partials", "check_totals"):
        return (k, o["method"])
    if k == "scribble":
        return (k, o["kind"])
    if k == "abort":
        return (k, o["target"])
    return (k,)


def _resolve(names, n):
    if n in names:
        return n
    for x in names:
        if x.endswith(n) or n.endswith(x):
            return x
    return None


def _branch_probes(model, pt, probe):
    if "wing.taper" in pt:
        probe("taper_eq_1" if float(np.ravel(pt["wing.taper"])[0]) == 1.0 else "taper_ne_1")
    if "Mach_number" in pt and model.spec["zoo"] in ("Z1", "Z4", "Z8", "Z10"):
        try:
            names = [n for n in ("aero_point_0.wing_perf.CDw", "AS_point_0.wing_perf.CDw")]
            for n in names:
                try:
                    v = float(np.ravel(model.prob.get_val(n))[0])
                except Exception:
                    continue
                probe("wave_drag_on" if v > 0 else "wave_drag_off")
                break
        except Exception:
            pass


def _run_driver(model, maxiter):
    prob = model.prob
    prob.driver.options["maxiter"] = int(maxiter)
    try:
        prob.run_driver()
    except Exception as e:  # SLSQP may stop on iteration limit: that is a normal outcome
        import openmdao.api as om

        if not isinstance(e, om.AnalysisError):
            raise


DEFAULT_TIGHTEN = {"atol": 5e-9}  # shipped: 1e-7; measured floor of ||delta outputs||: 2e-10 .. 1.4e-9


# ------------------------------------------------------------------------------------------------
# shrinking + replay
# ------------------------------------------------------------------------------------------------


def vclass(v):
    return (v["cls"], v["where"])


def shrink(hist, target):
    """ddmin over ops (illegal ops are skipped by the executor, so any sublist is executable),
    then try nominal points. ``target`` = (cls, where) to preserve."""

    def fails(ops, points=None):
        h = dict(hist)
        h["ops"] = ops
        if points is not None:
            h["points"] = points
        try:
            r = execute(h, stop_at_first=True, collect=False)
        except HarnessError:
            return False
        return any(vclass(v) == target for v in r["violations"])

    ops = core.ddmin(hist["ops"], fails, max_tests=120)
    h = dict(hist)
    h["ops"] = ops
    # drop unused points / simplify to nominal where the violation persists
    try:
        model = zoo.build(hist["spec"])
        nom = {k: np.asarray(v).tolist() for k, v in model.nominal_point().items()}
        pts = list(h["points"])
        for i in range(len(pts)):
            trial = list(pts)
            trial[i] = nom
            if trial[i] != pts[i] and fails(ops, trial):
                pts = trial
        h["points"] = pts
    except Exception:
        pass
    return h


def replay(path):
    with open(path) as f:
        rp = json.load(f)
    hist = rp["history"]
    r = execute(hist, stop_at_first=True)
    want = tuple(rp["violation_class"])
    got = [vclass(v) for v in r["violations"]]
    return r, want, got


# ------------------------------------------------------------------------------------------------
# runner interface
# ------------------------------------------------------------------------------------------------

TASK_TIMEOUT = 300
RECYCLE_WORKERS = True  # every history starts in a fork of the pristine parent; its references in pristine grandchildren

ASSUMPTIONS = [
    "a freshly built Problem evaluated once (run_model once; run_linearize once / compute_totals once) IS the specification",
    "OpenMDAO 3.45.1, numpy, scipy are trusted; two OpenMDAO artefacts are neutralised in-process (sim/omdao_patch.py, DESIGN.md 3.7) and re-validated on the control model Z0",
    "admissible points are drawn from input ranges fixed in sim/zoo.py (non-degenerate meshes, CL>0, subsonic)",
    "linearisation ops are only issued at a point converged by a completed run_model (OpenMDAO's usage contract)",
    "exploration: a clean batch is evidence, not proof",
]


def generate(seed, tier, opts):
    # generation builds a model to read its input specs: do that in a throw-away child so that the process which
    # executes the history (and forks the pristine reference server) has never built anything
    return core.in_child(gen_history, seed, tier, opts.get("zoo"), opts.get("faults", True))


def compact(case, res):
    return {
        "seed": case["seed"],
        "zoo": case["spec"]["zoo"],
        "spec": case["spec"],
        "n_ops": len(case["ops"]),
        "ops_run": res["ops_run"],
        "violations": res["violations"],
        "known": res["known"],
        "probes": res["probes"],
        "fault_fired": res["fault_fired"],
        "logical_steps": res["logical_steps"],
        "cache_states": sorted(set(res["cache_states"])),
        "comp_classes": res["comp_classes"],
        "abstract": res["abstract"],
        "nontrivial": res["nontrivial"],
        "digest": res["digest"],
        "margins": res["margins"],
        "coupled": res["coupled"],
        "sample": [_abs_op(o) for o in case["ops"]],
        "faults_enabled": sorted(k for k, v in case["enabled_faults"].items() if v),
    }


def coverage(results, tier):
    probes, fired, comp, cache, abstract, zoos = {}, {}, set(), set(), set(), {}
    steps = 0
    ff = 0
    for r in results:
        for k, v in r["probes"].items():
            probes[k] = probes.get(k, 0) + v
        for k, v in r["fault_fired"].items():
            fired[k] = fired.get(k, 0) + v
        comp.update(r["comp_classes"])
        cache.update(r["cache_states"])
        steps += r["logical_steps"]
        zoos[r["zoo"]] = zoos.get(r["zoo"], 0) + 1
        if r["nontrivial"]:
            abstract.add(r["abstract"])
        if not r["faults_enabled"]:
            ff += 1
    marg = {"plain": {}, "coupled": {}}
    for r in results:
        d = marg["coupled" if r["coupled"] else "plain"]
        for k, v in r["margins"].items():
            d[k] = max(d.get(k, 0.0), v)
    samples = [{"seed": r["seed"], "spec": r["spec"], "ops": r["sample"]} for r in results[:3]]
    return {
        "distinct_nontrivial": len(abstract),
        "rule": "one case = one seeded history (zoo configuration incl. surface-option combination, derivative mode, 2-4 admissible "
                "points drawn independently / as siblings / nearby / as special-value toggles, 2-5 visits (up to 12 in thorough) of "
                "set_point,[scribble],[abort],[disk fault],run_model,[run_driver], burst of {linearize,compute_totals,check_partials,check_totals}) "
                "on one live Problem, compared op by op with a fresh Problem evaluated once; distinct = distinct hash of "
                "(spec, abstract op sequence with point indices / fault kinds); non-trivial = >=2 completed run_model at "
                ">=2 distinct points and >=1 linearisation",
        "samples": samples or [{}],
        "margin_worst_ratio": marg,
        "tolerances": {k: dict(zip(("rt_out", "at_out", "rt_jac", "at_jac", "rt_tot", "at_tot"), v)) for k, v in TOL.items()},
        "logical_steps_component_calls": steps,
        "fault_counts_fired": fired,
        "fault_free_runs": ff,
        "probe_hits": probes,
        "distinct_cache_states": len(cache),
        "configs_covered": zoos,
        "component_classes_exercised": sorted(comp),
        "component_classes_exercised_count": len(comp),
        "real_vs_stub": {
            "real": "all of openaerostruct.*; OpenMDAO (two in-process patches, sim/omdao_patch.py); numpy/scipy; ScipyOptimizeDriver/SLSQP in run_driver ops",
            "stub": "report/recorder file output switched off (OPENMDAO_REPORTS=0); the disk under the MPhys contour writer is "
                    "simulated in memory (sim/simdisk.py) with ENOENT / EACCES / ENOSPC faults; LiftDistribution cannot run under the "
                    "installed numpy (np.trapz) and is not part of any model; no other stubs",
        },
    }
