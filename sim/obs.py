"""Non-perturbing observation of a live Problem, and comparison against a reference."""
import numpy as np


def components(prob):
    from openmdao.core.component import Component

    return list(prob.model.system_iter(recurse=True, typ=Component))


def is_oas(comp):
    return type(comp).__module__.startswith("openaerostruct")


def read_outputs(prob):
    """abs name -> copy of the (real) flat value of every output in the model."""
    return {n: np.array(v, dtype=float, copy=True) for n, v in prob.model._outputs._abs_item_iter(flat=True)}


def read_inputs(prob):
    return {n: np.array(v, dtype=float, copy=True) for n, v in prob.model._inputs._abs_item_iter(flat=True)}


def read_subjacs(prob):
    """(of, wrt) abs key -> copy of the component's sub-Jacobian storage (dense or sparse data)."""
    import scipy.sparse as sp

    from openmdao.core.explicitcomponent import ExplicitComponent

    out = {}
    for c in components(prob):
        info = getattr(c, "_subjacs_info", None)
        if not info:
            continue
        explicit = isinstance(c, ExplicitComponent)
        for key, meta in info.items():
            if not meta.get("dependent", True):
                continue
            if explicit and key[0] == key[1]:
                continue  # -I block of an explicit component: framework bookkeeping, created lazily
            v = meta.get("val")
            if v is None:
                continue
            if sp.issparse(v):
                v = v.toarray()
            v = np.asarray(v)
            if np.iscomplexobj(v):
                v = v.real
            out[key] = np.array(v, dtype=float, copy=True).ravel()
    return out


def subjac_owner_class(prob, key):
    of = key[0]
    path = of.rsplit(".", 1)[0]
    c = prob.model._get_subsystem(path)
    return type(c).__name__ if c is not None else "?"


def read_totals(prob, of, wrt):
    J = prob.compute_totals(of=list(of), wrt=list(wrt), return_format="dict")
    out = {}
    for o in of:
        for w in wrt:
            out[(o, w)] = np.array(J[o][w], dtype=float, copy=True).ravel()
    return out


def cmp_arrays(a, b, rtol, atol=0.0):
    """(ok, err, scale): inf-norm error of a vs reference b relative to b's inf-norm."""
    a = np.asarray(a, dtype=float).ravel()
    b = np.asarray(b, dtype=float).ravel()
    if a.shape != b.shape:
        return False, float("inf"), 0.0
    if a.size == 0:
        return True, 0.0, 0.0
    fa, fb = np.isfinite(a), np.isfinite(b)
    if not (fa.all() and fb.all()):
        same = np.array_equal(fa, fb) and np.array_equal(a[fa], b[fb])
        return bool(same), (0.0 if same else float("inf")), 0.0
    err = float(np.max(np.abs(a - b)))
    scale = float(np.max(np.abs(b)))
    return bool(err <= rtol * scale + atol), err, scale


def compare_dict(live, ref, rtol, atol_of=None, skip=(), stats=None):
    """Return list of (key, err, scale) for every key where live differs from ref beyond tolerance.

    atol_of(key) -> absolute slack (a round-off allowance tied to a neighbourhood scale)."""
    bad = []
    worst = 0.0
    for k, rv in ref.items():
        if k in skip:
            continue
        if k not in live:
            bad.append((k, float("inf"), 0.0))
            continue
        atol = atol_of(k) if atol_of else 0.0
        ok, err, scale = cmp_arrays(live[k], rv, rtol, atol)
        if not ok:
            bad.append((k, err, scale))
        elif err > 0.0:
            allowed = rtol * scale + atol
            if allowed > 0.0:
                worst = max(worst, err / allowed)
    if stats is not None:
        stats["worst"] = max(stats.get("worst", 0.0), worst)
    return bad


def component_scale(ref_outputs):
    """abs output name -> max |value| over all outputs of the same component (round-off neighbourhood)."""
    by_comp = {}
    for n, v in ref_outputs.items():
        c = n.rsplit(".", 1)[0]
        m = float(np.max(np.abs(v))) if v.size else 0.0
        if np.isfinite(m):
            by_comp[c] = max(by_comp.get(c, 0.0), m)
    return by_comp


def all_finite(d):
    for k, v in d.items():
        if not np.all(np.isfinite(v)):
            return k
    return None


def cache_state_digest(prob):
    """Digest of every ndarray / sparse / LU-tuple attribute found on OAS component instances
    (generic __dict__ introspection; no attribute names hard-coded)."""
    import hashlib
    import scipy.sparse as sp

    h = hashlib.sha256()
    n_attrs = 0
    for c in components(prob):
        if not is_oas(c):
            continue
        d = c.__dict__
        for name in sorted(d):
            if name.startswith("_") and name not in ("_lup", "_cached_constant_partial_vals"):
                continue
            v = d[name]
            arrs = []
            if isinstance(v, np.ndarray):
                arrs = [v]
            elif sp.issparse(v):
                arrs = [v.data]
            elif isinstance(v, (tuple, list)) and v and all(isinstance(x, np.ndarray) for x in v):
                arrs = list(v)
            for a in arrs:
                n_attrs += 1
                h.update(c.pathname.encode() + b"." + name.encode())
                h.update(np.ascontiguousarray(a).tobytes())
    return h.hexdigest()[:16], n_attrs
