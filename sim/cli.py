"""Entry point: python sim/cli.py <C03|C12|C20> <quick|thorough> | <id> --replay <file> | selftest-*"""
import os
import sys

sys.path.insert(0, os.path.dirname(os.path.dirname(os.path.abspath(__file__))))

from sim import core  # noqa: E402


def main(argv):
    core.reexec_if_needed()
    if not argv:
        print(__doc__)
        return 2
    try:
        if argv[0] == "selftest-determinism":
            from sim import selftest

            return selftest.determinism(argv[1:])
        if argv[0] == "selftest-mutants":
            from sim import selftest

            return selftest.mutants(argv[1:])
        if argv[0] == "selftest-benign":
            from sim import mutants

            return mutants.benign(argv[1:])
        if argv[0] == "selftest-seeded":
            from sim import mutants

            return mutants.seeded(argv[1:])
        if argv[0] == "selftest-control":
            from sim import selftest

            return selftest.control(argv[1:])
        prop = argv[0]
        from sim import runner

        if len(argv) >= 3 and argv[1] == "--replay":
            return runner.replay(prop, argv[2])
        if len(argv) >= 4 and argv[1] == "--exec-program":
            from sim import c20_programs

            return c20_programs.exec_program(argv[2], argv[3])
        tier = argv[1] if len(argv) > 1 else os.environ.get("VERIF_TIER", "quick")
        return runner.run_check(prop, tier)
    except core.HarnessError as e:
        print("HARNESS-ERROR %s" % e)
        return 2


if __name__ == "__main__":
    sys.exit(main(sys.argv[1:]))
