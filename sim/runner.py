"""Generic seeded-search runner: generate -> execute in forked workers -> shrink -> replay-verify ->
report (VIOLATION / KNOWN-FINDING / HARNESS-ERROR lines) -> evidence."""
import os
import sys
import json
import time
import subprocess

from . import core
from .core import HarnessError

TIERS = {
    # per property: (number of runs, wall budget for the search phase in seconds)
    "quick": {"C03": (750, 160), "C12": (600, 160), "C20": (260, 160)},
    "thorough": {"C03": (12000, 1800), "C12": (10000, 1800), "C20": (4000, 1800)},
}


def machine_for(prop):
    if prop == "C03":
        from . import c03_history as m
    elif prop == "C12":
        from . import c12_coupled as m
    elif prop == "C20":
        from . import c20_programs as m
    else:
        raise HarnessError("no machine for %r" % prop)
    return m


def _task(arg):
    prop, seed, tier, opts = arg
    m = machine_for(prop)
    case = m.generate(seed, tier, opts)
    res = m.execute(case, stop_at_first=True, collect=False)
    out = m.compact(case, res)
    if res["violations"]:
        out["case"] = case
    return out


def _shrink_task(arg):
    prop, case, target = arg
    m = machine_for(prop)
    small = m.shrink(case, tuple(target))
    r = m.execute(small, stop_at_first=True, collect=False)
    vs = [v for v in r["violations"] if m.vclass(v) == tuple(target)]
    return {"case": small, "violation": vs[0] if vs else None}


def run_check(prop, tier, n=None, budget=None, opts=None):
    t0 = time.time()
    core.bootstrap()
    m = machine_for(prop)
    base = core.base_seed()
    n_def, b_def = TIERS[tier][prop]
    n = int(os.environ.get("VERIF_RUNS", n or n_def))
    budget = float(os.environ.get("VERIF_BUDGET", budget or b_def))
    opts = opts or {}
    seeds = [core.run_seed(base, i) for i in range(n)]
    pre = {}
    if tier == "thorough" and os.environ.get("VERIF_SKIP_SELFTESTS") != "1":
        # determinism and (C03) the control model are proved before any property result is believed
        from . import selftest

        os.environ["VERIF_DET_PROPS"] = prop
        os.environ.setdefault("VERIF_DET_SEEDS", "32")
        rc = selftest.determinism([])
        pre["determinism_selftest"] = "ok" if rc == 0 else "FAILED"
        if rc != 0:
            print("HARNESS-ERROR determinism self-test failed; no property result is reported")
            return 2
        if prop == "C03":
            rc = selftest.control([])
            pre["control_model_selftest"] = "ok" if rc == 0 else "FAILED"
            if rc != 0:
                print("HARNESS-ERROR control-model self-test failed; no property result is reported")
                return 2
    print("%s %s: VERIF_SEED=%d runs=%d budget=%ds workers=%s repo=%s" % (
        prop, tier, base, n, budget, os.environ.get("VERIF_WORKERS", os.cpu_count()), core.REPO), flush=True)
    # VERIF_STOP_EARLY=1 (used by the sensitivity self-tests only, never by a registered command): stop dispatching once
    # a run has reported a violation - the question there is "is it caught", not "how often"
    early = (lambda r: r[1] == "ok" and bool(r[2].get("violations"))) if os.environ.get("VERIF_STOP_EARLY") == "1" else None
    results = core.run_pool(_task, [(prop, s, tier, opts) for s in seeds], task_timeout=m.TASK_TIMEOUT, wall_budget=budget,
                            recycle=getattr(m, "RECYCLE_WORKERS", False), on_result=early)
    ok = [pl for (_a, st, pl) in results if st == "ok"]
    harness = [(a[1], pl) for (a, st, pl) in results if st == "harness"]
    timeouts = [(a[1], pl) for (a, st, pl) in results if st == "timeout"]
    skipped = sum(1 for (_a, st, _pl) in results if st == "skipped")
    t_search = time.time() - t0

    # ---- violations: group by class, shrink one representative per class (bounded), verify replay
    by_class = {}
    for r in ok:
        for v in r.get("violations", []):
            by_class.setdefault(tuple(m.vclass(v)), []).append(r)
    known_lines = {}
    for r in ok:
        for v in r.get("known", []):
            known_lines.setdefault(v.get("known_id"), v)
    reported = []
    classes = sorted(by_class)[: int(os.environ.get("VERIF_MAX_REPORT", 6))]
    shrink_args = []
    for cl in classes:
        rs = sorted(by_class[cl], key=lambda r: (r["n_ops"], r["seed"]))
        shrink_args.append((prop, rs[0]["case"], list(cl)))
    shr = core.run_pool(_shrink_task, shrink_args, task_timeout=max(600, m.TASK_TIMEOUT * 4),
                        recycle=getattr(m, "RECYCLE_WORKERS", False)) if shrink_args else []
    for (arg, st, pl), cl in zip(shr, classes):
        case = arg[1]
        viol = None
        if st == "ok" and pl.get("violation"):
            case, viol = pl["case"], pl["violation"]
        else:
            # shrinking failed to preserve the class (or crashed): report the unshrunk case
            r0 = sorted(by_class[cl], key=lambda r: (r["n_ops"], r["seed"]))[0]
            viol = [v for v in r0["violations"] if tuple(m.vclass(v)) == cl][0]
        path = core.replay_path(prop, case.get("seed", "x"), "-" + core.digest(list(cl), 6))
        core.write_json(path, {"property": prop, "seed": case.get("seed"), "violation_class": list(cl),
                               "violation": viol, "history": case, "minimised": st == "ok" and pl.get("violation") is not None,
                               "found_in_runs": len(by_class[cl])})
        verified = _verify_replay(prop, path)
        reported.append((cl, path, verified, viol))

    # ---- output
    for kid, v in sorted(known_lines.items(), key=lambda kv: str(kv[0])):
        print("KNOWN-FINDING: property=%s %s (%s at %s)" % (prop, kid, v["cls"], v["where"]))
    for seed, msg in harness[:5]:
        print("HARNESS-ERROR seed=%s %s" % (seed, str(msg).strip().splitlines()[-1][:300]))
    for seed, msg in timeouts[:5]:
        print("HARNESS-ERROR seed=%s timeout: %s" % (seed, msg))
    for cl, path, verified, viol in reported:
        print("VIOLATION property=%s replay=%s" % (prop, path))
        print("  class=%s err=%.3g scale=%.3g replay_verified=%s runs_hitting=%d" % (
            "/".join(cl), viol.get("err", 0) or 0, viol.get("scale", 0) or 0, verified, len(by_class[cl])))
    if len(by_class) > len(classes):
        print("  (+%d more violation classes not minimised: %s)" % (len(by_class) - len(classes), sorted(by_class)[len(classes):][:10]))

    # ---- evidence
    wall = time.time() - t0
    cov = m.coverage(ok, tier)
    cov.update({
        "evaluations": len(ok),
        "runs_requested": n,
        "runs_skipped_budget": skipped,
        "harness_errors": len(harness),
        "timeouts": len(timeouts),
        "runs_per_hour": int(len(ok) / max(t_search, 1e-9) * 3600),
        "seeds": "run_seed(VERIF_SEED=%d, i) for i in [0,%d)" % (base, n),
        "violation_classes": [list(c) for c in sorted(by_class)],
        "known_findings_reproduced": sorted(str(k) for k in known_lines),
        "workers": int(os.environ.get("VERIF_WORKERS", os.cpu_count() or 1)),
        "simulated_time": "none: nothing in scope reads a clock; logical_steps is the measure",
    })
    cov.update(pre)
    core.write_evidence(prop, tier, base, cov, wall, len(by_class), m.ASSUMPTIONS)
    print("%s %s: runs=%d nontrivial_distinct=%d violations=%d known=%d harness=%d timeouts=%d skipped=%d wall=%.0fs" % (
        prop, tier, len(ok), cov.get("distinct_nontrivial", 0), len(by_class), len(known_lines), len(harness),
        len(timeouts), skipped, wall), flush=True)
    if by_class:
        return 1
    if not ok or len(harness) + len(timeouts) > max(2, 0.02 * len(results)):
        print("HARNESS-ERROR too many harness errors/timeouts (%d/%d) or no completed run" % (len(harness) + len(timeouts), len(results)))
        return 2
    if cov.get("distinct_nontrivial", 0) < 2:
        print("HARNESS-ERROR fewer than 2 distinct non-trivial cases explored")
        return 2
    return 0


def _verify_replay(prop, path):
    """Replay in a fresh interpreter; must reproduce the same violation class."""
    env = dict(os.environ)
    env.update(core.required_env())
    env.pop("VERIF_REEXEC", None)
    cmd = [sys.executable, os.path.join(core.VERIF, "sim", "cli.py"), prop, "--replay", path]
    try:
        p = subprocess.run(cmd, env=env, capture_output=True, text=True, timeout=900, cwd=core.VERIF)
    except subprocess.TimeoutExpired:
        return False
    return p.returncode == 1 and "REPLAY-REPRODUCED" in p.stdout


def replay(prop, path):
    path = core._abs_dir(path)
    core.bootstrap()
    m = machine_for(prop)
    with open(path) as f:
        rp = json.load(f)
    r = m.execute(rp["history"], stop_at_first=True, collect=True)
    want = tuple(rp["violation_class"])
    got = [tuple(m.vclass(v)) for v in r["violations"]]
    print("replay %s: want=%s got=%s digest=%s" % (path, want, got, r.get("digest")))
    if want in got:
        print("REPLAY-REPRODUCED")
        print("VIOLATION property=%s replay=%s" % (prop, path))
        return 1
    if got:
        print("REPLAY-DIFFERENT-VIOLATION")
        print("VIOLATION property=%s replay=%s" % (prop, path))
        return 1
    print("REPLAY-CLEAN (the recorded violation does not occur on this tree)")
    return 0
